// Package rt is the harness runtime. Under the symbolic engine every function
// here is an intrinsic (the bodies below are never interpreted); natively the
// same functions read their values from a replay file (VERIF_REPLAY) so that a
// solver counterexample can be re-run against the real build.
package rt

import (
	"crypto/sha256"
	"encoding/hex"
	"encoding/json"
	"fmt"
	"os"
	"runtime/debug"
	"strconv"
	"strings"
	"time"

	"github.com/bbva/qed/crypto/hashing"
)

type inputValue struct {
	Name  string `json:"name"`
	Kind  string `json:"kind"`
	Value string `json:"value"`
}

type replayFile struct {
	Label  string       `json:"label"`
	Inputs []inputValue `json:"inputs"`
}

var (
	loaded    bool
	values    map[string]inputValue
	seq       = map[string]int{}
	digestLen int
	// Failures collects the labels of assertions that failed natively.
	Failures  []string
	lastPanic string
)

func load() {
	if loaded {
		return
	}
	loaded = true
	values = map[string]inputValue{}
	path := os.Getenv("VERIF_REPLAY")
	if path == "" {
		return
	}
	b, err := os.ReadFile(path)
	if err != nil {
		fmt.Fprintln(os.Stderr, "rt: cannot read replay file:", err)
		os.Exit(3)
	}
	var rf replayFile
	if err := json.Unmarshal(b, &rf); err != nil {
		fmt.Fprintln(os.Stderr, "rt: bad replay file:", err)
		os.Exit(3)
	}
	for _, iv := range rf.Inputs {
		values[iv.Name] = iv
	}
}

// Reset clears per-run state (used when several replays run in one process).
func Reset() {
	loaded = false
	seq = map[string]int{}
	Failures = nil
	digestLen = 0
	exprMemo = map[string][]byte{}
}

func nextName(name string) string {
	k := seq[name]
	seq[name] = k + 1
	if k > 0 {
		return fmt.Sprintf("%s#%d", name, k)
	}
	return name
}

func scalar(name string) uint64 {
	load()
	n := nextName(name)
	iv, ok := values[n]
	if !ok {
		return 0
	}
	u, err := strconv.ParseUint(iv.Value, 10, 64)
	if err != nil {
		return 0
	}
	return u
}

func U64(name string) uint64 { return scalar(name) }
func I64(name string) int64  { return int64(scalar(name)) }
func Int(name string) int    { return int(int64(scalar(name))) }
func U32(name string) uint32 { return uint32(scalar(name)) }
func I32(name string) int32  { return int32(scalar(name)) }
func U16(name string) uint16 { return uint16(scalar(name)) }
func U8(name string) uint8   { return uint8(scalar(name)) }
func Byte(name string) byte  { return byte(scalar(name)) }
func Bool(name string) bool  { return scalar(name) != 0 }

// Bytes returns n arbitrary bytes.
func Bytes(name string, n int) []byte {
	load()
	nm := nextName(name)
	out := make([]byte, n)
	if iv, ok := values[nm]; ok {
		b, _ := hex.DecodeString(iv.Value)
		copy(out, b)
	}
	return out
}

// Choose returns an arbitrary value in [0,n).
func Choose(name string, n int) int {
	v := int(scalar(name))
	if v < 0 || v >= n {
		return 0
	}
	return v
}

// SetDigestLen fixes the digest length (bytes) of the hash model.
func SetDigestLen(n int) { digestLen = n }

// HashBytes is the model hash: natively SHA-256 truncated to the digest length.
func HashBytes(parts [][]byte) []byte {
	h := sha256.New()
	for _, p := range parts {
		h.Write(p)
	}
	return h.Sum(nil)[:digestLen]
}

// Digest returns an arbitrary value of the digest sort (a hash output or any
// other digest-sized value the adversary may supply).
func Digest(name string) []byte {
	load()
	nm := nextName(name)
	iv, ok := values[nm]
	if !ok {
		s := sha256.Sum256([]byte("fresh:" + nm))
		return s[:digestLen]
	}
	return evalDigestExpr(iv.Value)
}

// evalDigestExpr evaluates "H(e1,e2,…)", "x:<hex>", "p:<hex>".
func evalDigestExpr(e string) []byte {
	b, rest := parseExpr(e)
	_ = rest
	return b
}

var exprMemo = map[string][]byte{}

func parseExpr(e string) ([]byte, string) {
	switch {
	case strings.HasPrefix(e, "@"):
		i := 0
		for i < len(e) && e[i] != ',' && e[i] != ')' {
			i++
		}
		name := e[1:i]
		if b, ok := exprMemo[name]; ok {
			return b, e[i:]
		}
		var b []byte
		if iv, ok := values[name]; ok {
			b, _ = parseExpr(iv.Value)
		} else {
			s := sha256.Sum256([]byte("fresh:" + name))
			b = s[:digestLen]
		}
		exprMemo[name] = b
		return b, e[i:]
	case strings.HasPrefix(e, "H("):
		rest := e[2:]
		var parts [][]byte
		for {
			if strings.HasPrefix(rest, ")") {
				rest = rest[1:]
				break
			}
			var p []byte
			p, rest = parseExpr(rest)
			parts = append(parts, p)
			if strings.HasPrefix(rest, ",") {
				rest = rest[1:]
			}
			if rest == "" {
				break
			}
		}
		return HashBytes(parts), rest
	case strings.HasPrefix(e, "x:"), strings.HasPrefix(e, "p:"):
		rest := e[2:]
		i := 0
		for i < len(rest) && rest[i] != ',' && rest[i] != ')' {
			i++
		}
		b, _ := hex.DecodeString(rest[:i])
		if e[0] == 'x' {
			// free digest: its model bytes only pin down what the path constrained;
			// mix them so that distinct free values stay distinct natively.
			allZero := true
			for _, c := range b {
				if c != 0 {
					allZero = false
				}
			}
			if allZero {
				s := sha256.Sum256([]byte("fresh:" + rest[:i]))
				return s[:len(b)], rest[i:]
			}
		}
		return b, rest[i:]
	}
	// unknown: fresh junk
	i := 0
	for i < len(e) && e[i] != ',' && e[i] != ')' {
		i++
	}
	s := sha256.Sum256([]byte("fresh:" + e[:i]))
	return s[:digestLen], e[i:]
}

// FreeDigestMap is an adversary-controlled map of digests: symbolically, every
// key that is looked up is present with a free digest value and len() is size.
// Natively it holds exactly the entries the counterexample recorded (padded
// with unrelated keys up to size).
func FreeDigestMap(name string, size int) map[string]hashing.Digest {
	load()
	m := map[string]hashing.Digest{}
	pre := name + "["
	for n, iv := range values {
		if strings.HasPrefix(n, pre) && strings.HasSuffix(n, "]") && iv.Kind == "digest" {
			m[n[len(pre):len(n)-1]] = evalDigestExpr(iv.Value)
		}
	}
	for i := 0; len(m) < size; i++ {
		m[fmt.Sprintf("zz-pad-%d", i)] = make([]byte, digestLen)
	}
	return m
}

// FreeDigestMap10 is FreeDigestMap for maps keyed by 10-byte positions.
func FreeDigestMap10(name string, size int) map[[10]byte]hashing.Digest {
	load()
	m := map[[10]byte]hashing.Digest{}
	pre := name + "["
	for n, iv := range values {
		if strings.HasPrefix(n, pre) && strings.HasSuffix(n, "]") && iv.Kind == "digest" {
			kb, _ := hex.DecodeString(n[len(pre) : len(n)-1])
			var k [10]byte
			copy(k[:], kb)
			m[k] = evalDigestExpr(iv.Value)
		}
	}
	for i := 0; len(m) < size; i++ {
		var k [10]byte
		k[0], k[1], k[9] = 0xff, byte(i), 0xff
		m[k] = make([]byte, digestLen)
	}
	return m
}

type assumeFailed struct{}

// Assume restricts the inputs considered.
func Assume(c bool) {
	if !c {
		panic(assumeFailed{})
	}
}

// Assert states the property.
func Assert(c bool, label string) {
	if !c {
		Failures = append(Failures, label)
		fmt.Printf("ASSERT-FAIL %s\n", label)
	}
}

func Cover(c bool, label string) {}
func Reach(label string)         {}
func Bound(name string, v int)   {}
func Note(s string)              {}
func OnBlocked(f func())         { f() }
func Symbolic() bool             { return false }
func Unguard()                   {}

// GuardedBy declares that the memory cell field may only be accessed while mu is held.
func GuardedBy(field interface{}, mu interface{}, label string) {}

// Try runs f and reports whether it panicked.
func Try(f func()) (panicked bool) {
	defer func() {
		if r := recover(); r != nil {
			if _, ok := r.(assumeFailed); ok {
				panic(r)
			}
			panicked = true
			lastPanic = fmt.Sprint(r)
		}
	}()
	f()
	return false
}

func PanicMsg() string { return lastPanic }

// Terminates runs f and reports a violation "<label>:no-termination" if it does
// not finish within a generous wall-clock bound (an unbounded recursion kills
// the process with a stack overflow, which the checker recognises as well).
func Terminates(f func(), label string) bool {
	done := make(chan struct{})
	var pv interface{}
	go func() {
		defer close(done)
		defer func() { pv = recover() }()
		f()
	}()
	select {
	case <-done:
		if pv != nil {
			panic(pv)
		}
		return true
	case <-time.After(20 * time.Second):
		Failures = append(Failures, label+":no-termination")
		fmt.Printf("ASSERT-FAIL %s:no-termination\n", label)
		return false
	}
}

// SharedWrites: under the engine, f and g are run with every memory write
// recorded; cells written by both without a common lock are a violation.
// Natively it just runs both (the race-detector witness confirms a finding).
func SharedWrites(f, g func(), label string) bool {
	f()
	g()
	return false
}

var pending []chan struct{}

// Concurrently runs f as another thread of control started at this point. It
// returns true if f completed, false if f is blocked (waiting for a lock held
// by the caller); a blocked f finishes on its own later — Join waits for it.
func Concurrently(f func()) bool {
	done := make(chan struct{})
	var pv interface{}
	go func() {
		defer close(done)
		defer func() { pv = recover() }()
		f()
	}()
	select {
	case <-done:
		if pv != nil {
			panic(pv)
		}
		return true
	case <-time.After(300 * time.Millisecond):
		pending = append(pending, done)
		return false
	}
}

// Join waits for the activities that Concurrently left blocked.
func Join() {
	for _, d := range pending {
		<-d
	}
	pending = nil
}

// NoPanic runs f; a panic is a violation labelled label@file:line of the panic site.
func NoPanic(f func(), label string) (ok bool) {
	defer func() {
		if r := recover(); r != nil {
			if _, isA := r.(assumeFailed); isA {
				panic(r)
			}
			site := panicSite(string(debug.Stack()))
			lastPanic = fmt.Sprint(r)
			Failures = append(Failures, label+"@"+site)
			fmt.Printf("ASSERT-FAIL %s@%s %v\n", label, site, r)
			ok = false
		}
	}()
	f()
	return true
}

// panicSite extracts the file:line (relative to the repository root) of the
// frame that raised the panic from a stack dump taken in the recovering defer.
func panicSite(stack string) string {
	lines := strings.Split(stack, "\n")
	// find the "panic(" frame, then the first frame below it that is not in the Go runtime
	seenPanic := false
	for i := 0; i+1 < len(lines); i++ {
		l := lines[i]
		if strings.HasPrefix(l, "panic(") {
			seenPanic = true
			continue
		}
		if !seenPanic || strings.HasPrefix(l, "\t") {
			continue
		}
		loc := strings.TrimSpace(lines[i+1])
		if strings.Contains(loc, "/src/runtime/") || strings.Contains(loc, "/go/src/") || strings.Contains(loc, "/libexec/") {
			continue
		}
		if j := strings.Index(loc, " +0x"); j >= 0 {
			loc = loc[:j]
		}
		for _, root := range []string{"/repo/", "/verif/"} {
			if k := strings.Index(loc, root); k >= 0 {
				loc = loc[k+len(root):]
				break
			}
		}
		return loc
	}
	return "?"
}

var params map[string]int

// Param returns a bound chosen per tier by the checker (def when unset).
func Param(name string, def int) int {
	if params == nil {
		params = map[string]int{}
		if s := os.Getenv("VERIF_PARAMS"); s != "" {
			json.Unmarshal([]byte(s), &params)
		}
	}
	if v, ok := params[name]; ok {
		return v
	}
	return def
}

// Trace records a value for translator validation (native vs engine, concrete mode).
func Trace(label string, b []byte) { fmt.Printf("TRACE %s=%s\n", label, hex.EncodeToString(b)) }

func TraceInt(label string, v uint64) { fmt.Printf("TRACE %s=%d\n", label, v) }

// RunNative runs a harness natively and reports assertion failures / panics.
func RunNative(f func()) (failures []string) {
	Failures = nil
	func() {
		defer func() {
			if r := recover(); r != nil {
				if _, ok := r.(assumeFailed); ok {
					fmt.Println("ASSUME-FAIL")
					return
				}
				site := panicSite(string(debug.Stack()))
				Failures = append(Failures, "uncaught-panic@"+site)
				fmt.Printf("ASSERT-FAIL uncaught-panic@%s %v\n", site, r)
			}
		}()
		f()
	}()
	return Failures
}

// ---- model hasher ----

// A hasher instance is stateful (the real ones are: Reset/Write/Sum on one digest state),
// so every use writes the instance: two activities that may run concurrently must not share one.
type ModelHasher struct {
	bits uint16
	uses uint32
}

func (h *ModelHasher) Do(data ...[]byte) hashing.Digest {
	h.uses++
	return HashBytes(data)
}

func (h *ModelHasher) Salted(salt []byte, data ...[]byte) hashing.Digest {
	h.uses++
	parts := make([][]byte, 0, len(data)+1)
	parts = append(parts, data...)
	parts = append(parts, salt)
	return HashBytes(parts)
}

func (h *ModelHasher) Len() uint16 { return h.bits }

// NewHasher returns the model hasher with digests of the given number of bits.
func NewHasher(bits uint16) hashing.Hasher {
	SetDigestLen(int(bits / 8))
	return &ModelHasher{bits: bits}
}

// HasherF returns a hasher factory.
func HasherF(bits uint16) func() hashing.Hasher {
	return func() hashing.Hasher { return NewHasher(bits) }
}
