package models

import (
	"github.com/bbva/qed/balloon"
	"github.com/bbva/qed/crypto/hashing"
	"github.com/bbva/qed/zzverif/rt"
)

// Log is an honest log: the real Balloon over the store model, with every
// mutation batch applied to the store right after the insertion that produced
// it (what fsm.applyAdd does).
type Log struct {
	B       *balloon.Balloon
	Store   *MemStore
	Snaps   []*balloon.Snapshot
	Digests []hashing.Digest
	Bits    uint16
}

func NewLog(bits uint16) *Log {
	st := NewMemStore()
	b, err := balloon.NewBalloon(st, rt.HasherF(bits))
	if err != nil {
		panic(err)
	}
	return &Log{B: b, Store: st, Bits: bits}
}

func (l *Log) Add(d hashing.Digest) *balloon.Snapshot {
	s, m, err := l.B.Add(d)
	if err != nil {
		panic(err)
	}
	if err := l.Store.Mutate(m, nil); err != nil {
		panic(err)
	}
	l.Snaps = append(l.Snaps, s)
	l.Digests = append(l.Digests, d)
	return s
}

func (l *Log) AddBulk(ds []hashing.Digest) []*balloon.Snapshot {
	ss, m, err := l.B.AddBulk(ds)
	if err != nil {
		panic(err)
	}
	if err := l.Store.Mutate(m, nil); err != nil {
		panic(err)
	}
	l.Snaps = append(l.Snaps, ss...)
	l.Digests = append(l.Digests, ds...)
	return ss
}

// PrefixedDigest returns a digest of L bytes whose first bytes are the given
// concrete prefix and whose remaining bytes are symbolic.
func PrefixedDigest(name string, L int, prefix ...byte) hashing.Digest {
	d := make([]byte, 0, L)
	d = append(d, prefix...)
	d = append(d, rt.Bytes(name, L-len(prefix))...)
	return d
}
