package models

import (
	"github.com/bbva/qed/balloon"
	"github.com/bbva/qed/crypto/hashing"
	"github.com/bbva/qed/zzverif/rt"
)

// Log is an honest log: the real Balloon over the store model, with every
// mutation batch applied to the store right after the insertion that produced
// it (what fsm.applyAdd does).
type Log struct {
	B       *balloon.Balloon
	Store   *MemStore
	Snaps   []*balloon.Snapshot
	Digests []hashing.Digest
	Bits    uint16
}

func NewLog(bits uint16) *Log {
	st := NewMemStore()
	b, err := balloon.NewBalloon(st, rt.HasherF(bits))
	if err != nil {
		panic(err)
	}
	return &Log{B: b, Store: st, Bits: bits}
}

func (l *Log) Add(d hashing.Digest) *balloon.Snapshot {
	s, m, err := l.B.Add(d)
	if err != nil {
		panic(err)
	}
	if err := l.Store.Mutate(m, nil); err != nil {
		panic(err)
	}
	l.Snaps = append(l.Snaps, s)
	l.Digests = append(l.Digests, d)
	return s
}

func (l *Log) AddBulk(ds []hashing.Digest) []*balloon.Snapshot {
	ss, m, err := l.B.AddBulk(ds)
	if err != nil {
		panic(err)
	}
	if err := l.Store.Mutate(m, nil); err != nil {
		panic(err)
	}
	l.Snaps = append(l.Snaps, ss...)
	l.Digests = append(l.Digests, ds...)
	return ss
}

// PrefixedDigest returns a digest of L bytes whose first bytes are the given
// concrete prefix and whose remaining bytes are symbolic.
func PrefixedDigest(name string, L int, prefix ...byte) hashing.Digest {
	d := make([]byte, 0, L)
	d = append(d, prefix...)
	d = append(d, rt.Bytes(name, L-len(prefix))...)
	return d
}

// EventHasher wraps the model hasher so that hashing a short single input (an
// event submitted through the public API) yields a digest with a concrete
// cache-level prefix (taken from the event's first byte) followed by free
// symbolic bytes, memoised per event. Hyper-tree navigation then stays
// concrete for the 24 cache levels; everything else is the model hasher.
type EventHasher struct {
	inner hashing.Hasher
}

var eventDigests = map[string]hashing.Digest{}

func (h *EventHasher) Do(data ...[]byte) hashing.Digest {
	if len(data) == 1 && len(data[0]) == 0 {
		// the empty event: a fixed prefix of its own
		data = [][]byte{{0xee, 0xee}}
	}
	if len(data) == 1 && len(data[0]) >= 1 && len(data[0]) <= 4 {
		k := string(data[0])
		if d, ok := eventDigests[k]; ok {
			return d
		}
		b1, b2 := byte(0), byte(0)
		if len(data[0]) > 1 {
			b1 = data[0][1]
		}
		if len(data[0]) > 2 {
			// a third event byte becomes the third digest byte: events that differ only there
			// share 16..23 leading digest bits (the same stored tiles of the hyper cache)
			b2 = data[0][2]
		}
		d := PrefixedDigest("event-"+fmtBytes(data[0]), int(h.inner.Len()/8), data[0][0], b1, b2)
		eventDigests[k] = d
		return d
	}
	return h.inner.Do(data...)
}

func (h *EventHasher) Salted(salt []byte, data ...[]byte) hashing.Digest {
	return h.inner.Salted(salt, data...)
}

func (h *EventHasher) Len() uint16 { return h.inner.Len() }

func fmtBytes(b []byte) string {
	const hexd = "0123456789abcdef"
	s := ""
	for _, c := range b {
		s += string(hexd[c>>4]) + string(hexd[c&15])
	}
	return s
}

// EventHasherF is the hasher factory handed to nodes under test.
func EventHasherF(bits uint16) func() hashing.Hasher {
	return func() hashing.Hasher { return &EventHasher{inner: rt.NewHasher(bits)} }
}

// ResetEvents clears the memo (call at the start of a harness).
func ResetEvents() { eventDigests = map[string]hashing.Digest{} }
