// Package models holds environment models shared by harnesses.
package models
