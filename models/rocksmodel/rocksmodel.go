// Package rocksmodel is a Go model of the cgo RocksDB wrapper (package
// rocksdb) used as the target of engine redirects: per-column-family
// bytewise-sorted key lists, write batches applied in order, iterators over a
// snapshot taken when they are created. Contract taken from the RocksDB C API
// documentation; validated on every run by executing the same harnesses
// natively on the real library.
package rocksmodel

import (
	"bytes"
	"errors"

	"github.com/bbva/qed/rocksdb"
)

type kv struct{ k, v []byte }

type op struct {
	cf       *rocksdb.ColumnFamilyHandle
	del      bool
	k, v, to []byte
}

type iter struct {
	items []kv
	pos   int
}

var (
	cfs      = map[*rocksdb.ColumnFamilyHandle][]kv{}
	batches  = map[*rocksdb.WriteBatch][]op{}
	logData  = map[*rocksdb.WriteBatch][]byte{}
	iters    = map[*rocksdb.Iterator]*iter{}
	slices   = map[*rocksdb.Slice][]byte{}
	OpenIter int
	WAL      [][]byte // log data of the batches written, in order
)

func Reset() {
	cfs = map[*rocksdb.ColumnFamilyHandle][]kv{}
	batches = map[*rocksdb.WriteBatch][]op{}
	logData = map[*rocksdb.WriteBatch][]byte{}
	iters = map[*rocksdb.Iterator]*iter{}
	slices = map[*rocksdb.Slice][]byte{}
	OpenIter = 0
	WAL = nil
	dbCFs = map[*rocksdb.DB][]*rocksdb.ColumnFamilyHandle{}
	engines = map[*rocksdb.BackupEngine]*engineState{}
	infos = map[*rocksdb.BackupEngineInfo][]backup{}
	restored = map[string][][]kv{}
	dbPath = map[*rocksdb.DB]string{}
	OpenInfos = 0
}

func put(cf *rocksdb.ColumnFamilyHandle, k, v []byte) {
	l := cfs[cf]
	i := 0
	for i < len(l) && bytes.Compare(l[i].k, k) < 0 {
		i++
	}
	kc, vc := append([]byte{}, k...), append([]byte{}, v...)
	if i < len(l) && bytes.Equal(l[i].k, k) {
		l[i].v = vc
	} else {
		l = append(l, kv{})
		copy(l[i+1:], l[i:])
		l[i] = kv{kc, vc}
	}
	cfs[cf] = l
}

func deleteRange(cf *rocksdb.ColumnFamilyHandle, begin, end []byte) {
	var out []kv
	for _, e := range cfs[cf] {
		if bytes.Compare(e.k, begin) >= 0 && bytes.Compare(e.k, end) < 0 {
			continue
		}
		out = append(out, e)
	}
	cfs[cf] = out
}

func PutCF(db *rocksdb.DB, wo *rocksdb.WriteOptions, cf *rocksdb.ColumnFamilyHandle, key, value []byte) error {
	put(cf, key, value)
	return nil
}

func GetBytesCF(db *rocksdb.DB, ro *rocksdb.ReadOptions, cf *rocksdb.ColumnFamilyHandle, key []byte) ([]byte, error) {
	for _, e := range cfs[cf] {
		if bytes.Equal(e.k, key) {
			return append([]byte{}, e.v...), nil
		}
	}
	return nil, nil
}

func NewWriteBatch() *rocksdb.WriteBatch {
	wb := &rocksdb.WriteBatch{}
	batches[wb] = nil
	return wb
}

func WBPutCF(wb *rocksdb.WriteBatch, cf *rocksdb.ColumnFamilyHandle, key, value []byte) {
	batches[wb] = append(batches[wb], op{cf: cf, k: append([]byte{}, key...), v: append([]byte{}, value...)})
}

func WBPutLogData(wb *rocksdb.WriteBatch, blob []byte, size int) {
	logData[wb] = append([]byte{}, blob[:size]...)
}

func WBDeleteRangeCF(wb *rocksdb.WriteBatch, cf *rocksdb.ColumnFamilyHandle, begin, end []byte) {
	batches[wb] = append(batches[wb], op{cf: cf, del: true, k: append([]byte{}, begin...), to: append([]byte{}, end...)})
}

func WBDeleteCF(wb *rocksdb.WriteBatch, cf *rocksdb.ColumnFamilyHandle, key []byte) {
	batches[wb] = append(batches[wb], op{cf: cf, del: true, k: append([]byte{}, key...), to: append(append([]byte{}, key...), 0)})
}

func WBDestroy(wb *rocksdb.WriteBatch) {}

// Write applies the batch atomically, in order.
func Write(db *rocksdb.DB, wo *rocksdb.WriteOptions, wb *rocksdb.WriteBatch) error {
	for _, o := range batches[wb] {
		if o.del && bytes.Compare(o.k, o.to) > 0 {
			return errors.New("Invalid argument: end key comes before start key")
		}
	}
	for _, o := range batches[wb] {
		if o.del {
			deleteRange(o.cf, o.k, o.to)
		} else {
			put(o.cf, o.k, o.v)
		}
	}
	WAL = append(WAL, logData[wb])
	return nil
}

func NewIteratorCF(db *rocksdb.DB, ro *rocksdb.ReadOptions, cf *rocksdb.ColumnFamilyHandle) *rocksdb.Iterator {
	it := &rocksdb.Iterator{}
	st := &iter{pos: -1}
	st.items = append(st.items, cfs[cf]...)
	iters[it] = st
	OpenIter++
	return it
}

func ItSeekToFirst(it *rocksdb.Iterator) { iters[it].pos = 0 }
func ItSeekToLast(it *rocksdb.Iterator)  { iters[it].pos = len(iters[it].items) - 1 }

// Seek: the first key >= target.
func ItSeek(it *rocksdb.Iterator, key []byte) {
	st := iters[it]
	st.pos = len(st.items)
	for i, e := range st.items {
		if bytes.Compare(e.k, key) >= 0 {
			st.pos = i
			return
		}
	}
}

// SeekForPrev: the last key <= target.
func ItSeekForPrev(it *rocksdb.Iterator, key []byte) {
	st := iters[it]
	st.pos = -1
	for i, e := range st.items {
		if bytes.Compare(e.k, key) <= 0 {
			st.pos = i
		}
	}
}

func ItNext(it *rocksdb.Iterator) { iters[it].pos++ }
func ItValid(it *rocksdb.Iterator) bool {
	st := iters[it]
	return st.pos >= 0 && st.pos < len(st.items)
}
func ItKey(it *rocksdb.Iterator) *rocksdb.Slice {
	s := &rocksdb.Slice{}
	st := iters[it]
	slices[s] = st.items[st.pos].k
	return s
}
func ItValue(it *rocksdb.Iterator) *rocksdb.Slice {
	s := &rocksdb.Slice{}
	st := iters[it]
	slices[s] = st.items[st.pos].v
	return s
}
func ItClose(it *rocksdb.Iterator)                  { OpenIter-- }
func SliceData(s *rocksdb.Slice) []byte             { return slices[s] }
func SliceSize(s *rocksdb.Slice) int                { return len(slices[s]) }
func SliceFree(s *rocksdb.Slice)                    {}
func NewDefaultReadOptions() *rocksdb.ReadOptions   { return &rocksdb.ReadOptions{} }
func ROSetFillCache(o *rocksdb.ReadOptions, v bool) {}
func RODestroy(o *rocksdb.ReadOptions)              {}

// ---- backup engine ----
//
// Contract (RocksDB BackupEngine, C API): CreateNewBackupWithMetadata captures
// the content of every column family of the database at that moment together
// with the metadata string; identifiers start at 1, grow by one and are not
// reused while the engine is open; GetInfo lists the existing backups in
// identifier order; DeleteBackup and RestoreDBFromBackup of an identifier that
// does not exist fail; a restore materialises the captured content in the given
// directory, where a database opened afterwards finds it.

type backup struct {
	id   int64
	meta string
	data [][]kv // per column family, in the order the database was opened with
}

type engineState struct {
	backups []backup
	nextID  int64
}

var (
	dbCFs    = map[*rocksdb.DB][]*rocksdb.ColumnFamilyHandle{}
	engines  = map[*rocksdb.BackupEngine]*engineState{}
	infos    = map[*rocksdb.BackupEngineInfo][]backup{}
	restored = map[string][][]kv{}
	// OpenInfos counts BackupEngineInfo handles not yet destroyed.
	OpenInfos int
)

// Register tells the model which column-family handles a database was opened with.
func Register(db *rocksdb.DB, handles []*rocksdb.ColumnFamilyHandle) {
	dbCFs[db] = handles
	if data, ok := restored[dbPath[db]]; ok {
		for i, h := range handles {
			if i < len(data) {
				cfs[h] = append([]kv{}, data[i]...)
			}
		}
	}
}

var dbPath = map[*rocksdb.DB]string{}

// SetPath records the directory a database handle was opened on (before Register).
func SetPath(db *rocksdb.DB, path string) { dbPath[db] = path }

func engine(b *rocksdb.BackupEngine) *engineState {
	st := engines[b]
	if st == nil {
		st = &engineState{nextID: 1}
		engines[b] = st
	}
	return st
}

func BECreateNewBackupWithMetadata(b *rocksdb.BackupEngine, db *rocksdb.DB, metadata string) error {
	st := engine(b)
	bk := backup{id: st.nextID, meta: metadata}
	st.nextID++
	for _, h := range dbCFs[db] {
		bk.data = append(bk.data, append([]kv{}, cfs[h]...))
	}
	st.backups = append(st.backups, bk)
	return nil
}

func BEDeleteBackup(b *rocksdb.BackupEngine, backupID uint32) error {
	st := engine(b)
	for i, bk := range st.backups {
		if bk.id == int64(backupID) {
			st.backups = append(st.backups[:i:i], st.backups[i+1:]...)
			return nil
		}
	}
	return errors.New("NotFound: Backup not found")
}

func BEGetInfo(b *rocksdb.BackupEngine) *rocksdb.BackupEngineInfo {
	in := &rocksdb.BackupEngineInfo{}
	infos[in] = append([]backup{}, engine(b).backups...)
	OpenInfos++
	return in
}

func BERestoreDBFromBackup(b *rocksdb.BackupEngine, backupID uint32, dbDir, walDir string, ro *rocksdb.RestoreOptions) error {
	for _, bk := range engine(b).backups {
		if bk.id == int64(backupID) {
			restored[dbDir] = bk.data
			return nil
		}
	}
	return errors.New("NotFound: Backup not found")
}

func BERestoreDBFromLatestBackup(b *rocksdb.BackupEngine, dbDir, walDir string, ro *rocksdb.RestoreOptions) error {
	st := engine(b)
	if len(st.backups) == 0 {
		return errors.New("NotFound: No backups")
	}
	restored[dbDir] = st.backups[len(st.backups)-1].data
	return nil
}

func BIGetCount(in *rocksdb.BackupEngineInfo) int                 { return len(infos[in]) }
func BIGetBackupID(in *rocksdb.BackupEngineInfo, i int) int64     { return infos[in][i].id }
func BIGetTimestamp(in *rocksdb.BackupEngineInfo, i int) int64    { _ = infos[in][i]; return 0 }
func BIGetSize(in *rocksdb.BackupEngineInfo, i int) int64         { _ = infos[in][i]; return 0 }
func BIGetNumFiles(in *rocksdb.BackupEngineInfo, i int) int32     { _ = infos[in][i]; return 0 }
func BIGetAppMetadata(in *rocksdb.BackupEngineInfo, i int) string { return infos[in][i].meta }
func BIDestroy(in *rocksdb.BackupEngineInfo)                      { OpenInfos-- }
