// Package rocksmodel is a Go model of the cgo RocksDB wrapper (package
// rocksdb) used as the target of engine redirects: per-column-family
// bytewise-sorted key lists, write batches applied in order, iterators over a
// snapshot taken when they are created. Contract taken from the RocksDB C API
// documentation; validated on every run by executing the same harnesses
// natively on the real library.
package rocksmodel

import (
	"bytes"
	"errors"

	"github.com/bbva/qed/rocksdb"
)

type kv struct{ k, v []byte }

type op struct {
	cf       *rocksdb.ColumnFamilyHandle
	del      bool
	k, v, to []byte
}

type iter struct {
	items []kv
	pos   int
}

var (
	cfs      = map[*rocksdb.ColumnFamilyHandle][]kv{}
	batches  = map[*rocksdb.WriteBatch][]op{}
	logData  = map[*rocksdb.WriteBatch][]byte{}
	iters    = map[*rocksdb.Iterator]*iter{}
	slices   = map[*rocksdb.Slice][]byte{}
	OpenIter int
	WAL      [][]byte // log data of the batches written, in order
)

func Reset() {
	cfs = map[*rocksdb.ColumnFamilyHandle][]kv{}
	batches = map[*rocksdb.WriteBatch][]op{}
	logData = map[*rocksdb.WriteBatch][]byte{}
	iters = map[*rocksdb.Iterator]*iter{}
	slices = map[*rocksdb.Slice][]byte{}
	OpenIter = 0
	WAL = nil
}

func put(cf *rocksdb.ColumnFamilyHandle, k, v []byte) {
	l := cfs[cf]
	i := 0
	for i < len(l) && bytes.Compare(l[i].k, k) < 0 {
		i++
	}
	kc, vc := append([]byte{}, k...), append([]byte{}, v...)
	if i < len(l) && bytes.Equal(l[i].k, k) {
		l[i].v = vc
	} else {
		l = append(l, kv{})
		copy(l[i+1:], l[i:])
		l[i] = kv{kc, vc}
	}
	cfs[cf] = l
}

func deleteRange(cf *rocksdb.ColumnFamilyHandle, begin, end []byte) {
	var out []kv
	for _, e := range cfs[cf] {
		if bytes.Compare(e.k, begin) >= 0 && bytes.Compare(e.k, end) < 0 {
			continue
		}
		out = append(out, e)
	}
	cfs[cf] = out
}

func PutCF(db *rocksdb.DB, wo *rocksdb.WriteOptions, cf *rocksdb.ColumnFamilyHandle, key, value []byte) error {
	put(cf, key, value)
	return nil
}

func GetBytesCF(db *rocksdb.DB, ro *rocksdb.ReadOptions, cf *rocksdb.ColumnFamilyHandle, key []byte) ([]byte, error) {
	for _, e := range cfs[cf] {
		if bytes.Equal(e.k, key) {
			return append([]byte{}, e.v...), nil
		}
	}
	return nil, nil
}

func NewWriteBatch() *rocksdb.WriteBatch {
	wb := &rocksdb.WriteBatch{}
	batches[wb] = nil
	return wb
}

func WBPutCF(wb *rocksdb.WriteBatch, cf *rocksdb.ColumnFamilyHandle, key, value []byte) {
	batches[wb] = append(batches[wb], op{cf: cf, k: append([]byte{}, key...), v: append([]byte{}, value...)})
}

func WBPutLogData(wb *rocksdb.WriteBatch, blob []byte, size int) {
	logData[wb] = append([]byte{}, blob[:size]...)
}

func WBDeleteRangeCF(wb *rocksdb.WriteBatch, cf *rocksdb.ColumnFamilyHandle, begin, end []byte) {
	batches[wb] = append(batches[wb], op{cf: cf, del: true, k: append([]byte{}, begin...), to: append([]byte{}, end...)})
}

func WBDeleteCF(wb *rocksdb.WriteBatch, cf *rocksdb.ColumnFamilyHandle, key []byte) {
	batches[wb] = append(batches[wb], op{cf: cf, del: true, k: append([]byte{}, key...), to: append(append([]byte{}, key...), 0)})
}

func WBDestroy(wb *rocksdb.WriteBatch) {}

// Write applies the batch atomically, in order.
func Write(db *rocksdb.DB, wo *rocksdb.WriteOptions, wb *rocksdb.WriteBatch) error {
	for _, o := range batches[wb] {
		if o.del && bytes.Compare(o.k, o.to) > 0 {
			return errors.New("Invalid argument: end key comes before start key")
		}
	}
	for _, o := range batches[wb] {
		if o.del {
			deleteRange(o.cf, o.k, o.to)
		} else {
			put(o.cf, o.k, o.v)
		}
	}
	WAL = append(WAL, logData[wb])
	return nil
}

func NewIteratorCF(db *rocksdb.DB, ro *rocksdb.ReadOptions, cf *rocksdb.ColumnFamilyHandle) *rocksdb.Iterator {
	it := &rocksdb.Iterator{}
	st := &iter{pos: -1}
	st.items = append(st.items, cfs[cf]...)
	iters[it] = st
	OpenIter++
	return it
}

func ItSeekToFirst(it *rocksdb.Iterator) { iters[it].pos = 0 }
func ItSeekToLast(it *rocksdb.Iterator)  { iters[it].pos = len(iters[it].items) - 1 }

// Seek: the first key >= target.
func ItSeek(it *rocksdb.Iterator, key []byte) {
	st := iters[it]
	st.pos = len(st.items)
	for i, e := range st.items {
		if bytes.Compare(e.k, key) >= 0 {
			st.pos = i
			return
		}
	}
}

// SeekForPrev: the last key <= target.
func ItSeekForPrev(it *rocksdb.Iterator, key []byte) {
	st := iters[it]
	st.pos = -1
	for i, e := range st.items {
		if bytes.Compare(e.k, key) <= 0 {
			st.pos = i
		}
	}
}

func ItNext(it *rocksdb.Iterator) { iters[it].pos++ }
func ItValid(it *rocksdb.Iterator) bool {
	st := iters[it]
	return st.pos >= 0 && st.pos < len(st.items)
}
func ItKey(it *rocksdb.Iterator) *rocksdb.Slice {
	s := &rocksdb.Slice{}
	st := iters[it]
	slices[s] = st.items[st.pos].k
	return s
}
func ItValue(it *rocksdb.Iterator) *rocksdb.Slice {
	s := &rocksdb.Slice{}
	st := iters[it]
	slices[s] = st.items[st.pos].v
	return s
}
func ItClose(it *rocksdb.Iterator)                 { OpenIter-- }
func SliceData(s *rocksdb.Slice) []byte            { return slices[s] }
func SliceSize(s *rocksdb.Slice) int               { return len(slices[s]) }
func SliceFree(s *rocksdb.Slice)                   {}
func NewDefaultReadOptions() *rocksdb.ReadOptions  { return &rocksdb.ReadOptions{} }
func ROSetFillCache(o *rocksdb.ReadOptions, v bool) {}
func RODestroy(o *rocksdb.ReadOptions)             {}
