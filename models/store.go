package models

import (
	"bytes"
	"errors"
	"io"

	"github.com/bbva/qed/storage"
)

// MemStore is the store model: one sorted association list per table. Mutate
// applies a batch atomically and appends it (with its metadata) to a WAL list.
// Contract taken from storage/store.go and RocksDB's WriteBatch atomicity.
type MemStore struct {
	Tables                [5][]storage.KVPair
	WAL                   []Batch
	OpenReaders           int
	Closed                bool
	ClosedWithOpenReaders bool
	Mutates               int
	// CrashAfter >= 0: every Mutate after the CrashAfter-th is dropped (the process is gone).
	CrashAfter int
	// BeforeMutate, if set, runs before a batch becomes visible (interleaving point).
	BeforeMutate func()
	// AfterMutate, if set, runs right after a batch became visible.
	AfterMutate func()
	Backups     []backupRec
	backupSeq   int64
	// DeferWrites models a store write that has been issued but has not completed yet.
	DeferWrites bool
	Pending     []Batch
	// Covered is a ghost of the Raft log directory that sits next to the store: the
	// greatest log index that this replica's Raft log (or snapshot store) holds.
	// It survives restarts and crashes of the store (Raft persists an entry before
	// it is applied); a store restored from a backup starts with a new, empty log.
	Covered uint64
	// Started: a node has been started next to this store before, so its Raft directory holds
	// state (a term, a configuration entry) even if no event was ever added.
	Started bool
	// FailWrite >= 0: the FailWrite-th Mutate from now (0 = the next one) fails with an
	// I/O error and writes nothing (a full disk, a failing device); later ones work again.
	FailWrite int
}

// Flush completes the writes deferred while DeferWrites was set.
func (s *MemStore) Flush() {
	s.DeferWrites = false
	p := s.Pending
	s.Pending = nil
	for _, b := range p {
		s.Mutate(b.Mutations, b.Meta)
	}
}

type Batch struct {
	Mutations []*storage.Mutation
	Meta      []byte
}

func NewMemStore() *MemStore { return &MemStore{CrashAfter: -1, FailWrite: -1} }

var errIO = errors.New("store model: injected I/O error")

func (s *MemStore) find(t storage.Table, key []byte) (int, bool) {
	tab := s.Tables[t]
	lo, hi := 0, len(tab)
	for lo < hi {
		mid := (lo + hi) / 2
		c := bytes.Compare(tab[mid].Key, key)
		if c == 0 {
			return mid, true
		}
		if c < 0 {
			lo = mid + 1
		} else {
			hi = mid
		}
	}
	return lo, false
}

func (s *MemStore) put(t storage.Table, key, value []byte) {
	i, ok := s.find(t, key)
	k := append([]byte(nil), key...)
	v := append([]byte(nil), value...)
	if ok {
		s.Tables[t][i].Value = v
		return
	}
	tab := s.Tables[t]
	tab = append(tab, storage.KVPair{})
	copy(tab[i+1:], tab[i:])
	tab[i] = storage.KVPair{Key: k, Value: v}
	s.Tables[t] = tab
}

func (s *MemStore) Mutate(mutations []*storage.Mutation, metadata []byte) error {
	if s.BeforeMutate != nil {
		f := s.BeforeMutate
		s.BeforeMutate = nil
		f()
	}
	if s.CrashAfter >= 0 && s.Mutates >= s.CrashAfter {
		s.Mutates++
		return nil
	}
	if s.FailWrite == 0 {
		s.FailWrite = -1
		return errIO
	}
	if s.FailWrite > 0 {
		s.FailWrite--
	}
	if s.DeferWrites {
		// the write is in flight: it becomes visible when Flush is called
		s.Pending = append(s.Pending, Batch{Mutations: mutations, Meta: metadata})
		return nil
	}
	s.Mutates++
	for _, m := range mutations {
		s.put(m.Table, m.Key, m.Value)
	}
	s.WAL = append(s.WAL, Batch{Mutations: mutations, Meta: metadata})
	if s.AfterMutate != nil {
		f := s.AfterMutate
		s.AfterMutate = nil
		f()
	}
	return nil
}

func (s *MemStore) Get(t storage.Table, key []byte) (*storage.KVPair, error) {
	i, ok := s.find(t, key)
	if !ok {
		return nil, storage.ErrKeyNotFound
	}
	kv := s.Tables[t][i]
	return &storage.KVPair{Key: append([]byte(nil), kv.Key...), Value: append([]byte(nil), kv.Value...)}, nil
}

func (s *MemStore) GetRange(t storage.Table, start, end []byte) (storage.KVRange, error) {
	res := storage.NewKVRange()
	i, _ := s.find(t, start)
	for ; i < len(s.Tables[t]); i++ {
		kv := s.Tables[t][i]
		if bytes.Compare(kv.Key, end) > 0 {
			break
		}
		res = append(res, storage.KVPair{Key: append([]byte(nil), kv.Key...), Value: append([]byte(nil), kv.Value...)})
	}
	return res, nil
}

func (s *MemStore) GetLast(t storage.Table) (*storage.KVPair, error) {
	tab := s.Tables[t]
	if len(tab) == 0 {
		return nil, storage.ErrKeyNotFound
	}
	kv := tab[len(tab)-1]
	return &storage.KVPair{Key: append([]byte(nil), kv.Key...), Value: append([]byte(nil), kv.Value...)}, nil
}

type memReader struct {
	s      *MemStore
	t      storage.Table
	pos    int
	closed bool
}

func (r *memReader) Read(buf []*storage.KVPair) (int, error) {
	n := 0
	tab := r.s.Tables[r.t]
	for n < len(buf) && r.pos < len(tab) {
		kv := tab[r.pos]
		buf[n] = &storage.KVPair{Key: append([]byte(nil), kv.Key...), Value: append([]byte(nil), kv.Value...)}
		n++
		r.pos++
	}
	return n, nil
}

func (r *memReader) Close() {
	if !r.closed {
		r.closed = true
		r.s.OpenReaders--
	}
}

func (s *MemStore) GetAll(t storage.Table) storage.KVPairReader {
	s.OpenReaders++
	return &memReader{s: s, t: t}
}

func (s *MemStore) Close() error {
	if s.OpenReaders != 0 {
		s.ClosedWithOpenReaders = true
	}
	s.Closed = true
	return nil
}

// Dump returns all entries of a table (for state comparison).
func (s *MemStore) Dump(t storage.Table) []storage.KVPair { return s.Tables[t] }

// Clone returns a deep copy of the durable state (tables + WAL), as found by a
// process that restarts on the same data.
func (s *MemStore) Clone() *MemStore {
	c := NewMemStore()
	for t := range s.Tables {
		for _, kv := range s.Tables[t] {
			c.Tables[t] = append(c.Tables[t], storage.KVPair{Key: append([]byte(nil), kv.Key...), Value: append([]byte(nil), kv.Value...)})
		}
	}
	c.WAL = append(c.WAL, s.WAL...)
	return c // Covered stays 0: the copy is not next to this store's Raft log
}

var _ storage.Store = (*MemStore)(nil)
var _ io.Closer = (*MemStore)(nil)
