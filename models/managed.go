package models

import (
	"errors"
	"io"

	"github.com/bbva/qed/metrics"
	"github.com/bbva/qed/storage"
)

// ManagedStore part of the store model (state transfer, WAL sequence numbers,
// backups). Contract taken from storage/store.go and from how
// storage/rocks implements it over RocksDB: the WAL is the ordered list of
// applied write batches, each with its log data (metadata); FetchSnapshot
// streams, in order, the batches with sequence number in (since, until] that
// the validator accepts; LoadSnapshot applies the streamed batches in order.

// batchRegistry lets a "stream" carry batches between two MemStores as small
// tokens (8 bytes per batch) — the byte format of a RocksDB write batch is not
// what is being checked.
var batchRegistry []*Batch

func regBatch(b *Batch) uint64 {
	batchRegistry = append(batchRegistry, b)
	return uint64(len(batchRegistry) - 1)
}

func (s *MemStore) LastWALSequenceNumber() uint64 { return uint64(len(s.WAL)) }

func (s *MemStore) FetchSnapshot(w io.WriteCloser, since, until uint64, valid storage.ValidateF) error {
	defer w.Close()
	for i := range s.WAL {
		seq := uint64(i + 1)
		if seq <= since {
			continue
		}
		if seq > until {
			break
		}
		ok, err := valid(s.WAL[i].Meta)
		if err != nil {
			return err
		}
		if !ok {
			continue
		}
		id := regBatch(&s.WAL[i])
		tok := make([]byte, 8)
		for k := 0; k < 8; k++ {
			tok[7-k] = byte(id >> (8 * uint(k)))
		}
		if _, err := w.Write(tok); err != nil {
			return err
		}
	}
	return nil
}

func (s *MemStore) LoadSnapshot(r io.ReadCloser) error {
	defer r.Close()
	for {
		tok := make([]byte, 8)
		n, err := r.Read(tok)
		if n == 0 || err != nil {
			return nil
		}
		if n != 8 {
			return errors.New("corrupted chunk")
		}
		var id uint64
		for k := 0; k < 8; k++ {
			id = id<<8 | uint64(tok[k])
		}
		b := batchRegistry[id]
		for _, m := range b.Mutations {
			s.put(m.Table, m.Key, m.Value)
		}
		s.WAL = append(s.WAL, Batch{Mutations: b.Mutations, Meta: b.Meta})
	}
}

// Backups. Contract (RocksDB BackupEngine as used by storage/rocks): a backup
// captures the whole durable content of the store at the moment it is taken
// (every table, the write-ahead data included) together with the caller's
// metadata string; identifiers start at 1, grow, and are not reused while the
// engine is open; deleting or restoring an identifier that does not exist is an
// error; restoring materialises that content as a store of its own, which no
// later write to the original reaches.
type backupRec struct {
	id    int64
	meta  string
	state *MemStore
}

func (s *MemStore) Backup(metadata string) error {
	s.backupSeq++
	s.Backups = append(s.Backups, backupRec{id: s.backupSeq, meta: metadata, state: s.Clone()})
	return nil
}

func (s *MemStore) GetBackupsInfo() []*storage.BackupInfo {
	var out []*storage.BackupInfo
	for _, b := range s.Backups {
		out = append(out, &storage.BackupInfo{ID: b.id, Metadata: b.meta})
	}
	return out
}

func (s *MemStore) DeleteBackup(backupID uint32) error {
	for i, b := range s.Backups {
		if b.id == int64(backupID) {
			s.Backups = append(s.Backups[:i], s.Backups[i+1:]...)
			return nil
		}
	}
	return errors.New("backup not found")
}

// restored maps a directory to the store content a restore materialised there.
var restored map[string]*MemStore

func (s *MemStore) RestoreFromBackup(backupID uint32, dbDir, walDir string) error {
	for _, b := range s.Backups {
		if b.id == int64(backupID) {
			if restored == nil {
				restored = map[string]*MemStore{}
			}
			restored[dbDir] = b.state.Clone()
			return nil
		}
	}
	return errors.New("backup not found")
}

// OpenRestored opens the store a restore put into dir (nil if there is none):
// what a node started on that directory finds. A new Raft log sits next to it.
func OpenRestored(dir string) *MemStore { return restored[dir] }

func (s *MemStore) RegisterMetrics(metrics.Registry) {}

var _ storage.ManagedStore = (*MemStore)(nil)
