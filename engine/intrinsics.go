package main

import (
	"encoding/hex"
	"fmt"
	"go/token"
	"go/types"
	"os"
	"strconv"
	"strings"

	"golang.org/x/tools/go/ssa"
)

type intrinsic func(in *Interp, caller *frame, fn *ssa.Function, args []Value) Value

var intrinsics map[string]intrinsic

const rtPkg = "github.com/bbva/qed/zzverif/rt."

func (in *Interp) argStr(v Value) string {
	s, ok := v.(string)
	if !ok {
		in.unsupported("expected concrete string argument, got %T", v)
	}
	return s
}

func (in *Interp) newScalarInput(name, kind string, w int) *Term {
	name = in.newInputName(name)
	if in.cfg.Concrete != nil {
		var u uint64
		if iv, ok := in.cfg.Concrete[name]; ok {
			u, _ = strconv.ParseUint(iv.Value, 10, 64)
		}
		if kind == "bool" {
			return in.tt.Bool(u != 0)
		}
		return in.tt.Const(w, u)
	}
	var t *Term
	if kind == "bool" {
		t = in.tt.Var(smtName(name), BoolSort)
	} else {
		t = in.tt.Var(smtName(name), BV(w))
	}
	in.inputs = append(in.inputs, &Input{Name: name, Kind: kind, T: []*Term{t}, W: w})
	return t
}

func init() {
	intrinsics = map[string]intrinsic{}
	bvIn := func(w int) intrinsic {
		return func(in *Interp, _ *frame, _ *ssa.Function, a []Value) Value {
			return in.newScalarInput(in.argStr(a[0]), "bv", w)
		}
	}
	intrinsics[rtPkg+"U64"] = bvIn(64)
	intrinsics[rtPkg+"I64"] = bvIn(64)
	intrinsics[rtPkg+"Int"] = bvIn(64)
	intrinsics[rtPkg+"U32"] = bvIn(32)
	intrinsics[rtPkg+"I32"] = bvIn(32)
	intrinsics[rtPkg+"U16"] = bvIn(16)
	intrinsics[rtPkg+"U8"] = bvIn(8)
	intrinsics[rtPkg+"Byte"] = bvIn(8)
	intrinsics[rtPkg+"Bool"] = func(in *Interp, _ *frame, _ *ssa.Function, a []Value) Value {
		return in.newScalarInput(in.argStr(a[0]), "bool", 0)
	}
	intrinsics[rtPkg+"Bytes"] = func(in *Interp, _ *frame, _ *ssa.Function, a []Value) Value {
		name := in.newInputName(in.argStr(a[0]))
		n := int(in.concreteInt(a[1].(*Term), true))
		ts := make([]*Term, n)
		if in.cfg.Concrete != nil {
			var raw []byte
			if iv, ok := in.cfg.Concrete[name]; ok {
				raw, _ = hex.DecodeString(iv.Value)
			}
			for i := range ts {
				var b byte
				if i < len(raw) {
					b = raw[i]
				}
				ts[i] = in.tt.byteC[b]
			}
			return in.bytesToSlice(ts)
		}
		for i := range ts {
			ts[i] = in.tt.Var(fmt.Sprintf("%s_%d", smtName(name), i), BV(8))
		}
		in.inputs = append(in.inputs, &Input{Name: name, Kind: "bytes", T: ts})
		return in.bytesToSlice(ts)
	}
	intrinsics[rtPkg+"Digest"] = func(in *Interp, _ *frame, _ *ssa.Function, a []Value) Value {
		return in.freeDigest(in.argStr(a[0]))
	}
	freeMap := func(in *Interp, _ *frame, fn *ssa.Function, a []Value) Value {
		name := in.argStr(a[0])
		size := int(in.concreteInt(a[1].(*Term), true))
		mt := fn.Signature.Results().At(0).Type().Underlying().(*types.Map)
		return &Map{KeyT: mt.Key(), index: map[string]*mapEntry{}, lazy: name, lazySize: size}
	}
	intrinsics[rtPkg+"FreeDigestMap"] = freeMap
	intrinsics[rtPkg+"FreeDigestMap10"] = freeMap
	intrinsics[rtPkg+"Choose"] = func(in *Interp, _ *frame, _ *ssa.Function, a []Value) Value {
		name := in.newInputName(in.argStr(a[0]))
		n := int(in.concreteInt(a[1].(*Term), true))
		if in.cfg.Concrete != nil {
			var u uint64
			if iv, ok := in.cfg.Concrete[name]; ok {
				u, _ = strconv.ParseUint(iv.Value, 10, 64)
			}
			if int(u) >= n {
				u = 0
			}
			return in.tt.Const(64, u)
		}
		k := in.choose(name, n)
		t := in.tt.Const(64, uint64(k))
		in.inputs = append(in.inputs, &Input{Name: name, Kind: "choice", T: []*Term{t}, W: 64})
		return t
	}
	intrinsics[rtPkg+"Assume"] = func(in *Interp, _ *frame, _ *ssa.Function, a []Value) Value {
		in.assume(a[0].(*Term), in.posStr(in.curPos), true)
		return nil
	}
	intrinsics[rtPkg+"Assert"] = func(in *Interp, _ *frame, _ *ssa.Function, a []Value) Value {
		in.assertCond(a[0].(*Term), in.argStr(a[1]))
		return nil
	}
	intrinsics[rtPkg+"Cover"] = func(in *Interp, _ *frame, _ *ssa.Function, a []Value) Value {
		in.cover(a[0].(*Term), in.argStr(a[1]))
		return nil
	}
	intrinsics[rtPkg+"Reach"] = func(in *Interp, _ *frame, _ *ssa.Function, a []Value) Value {
		in.res.Reaches[in.argStr(a[0])] = true
		return nil
	}
	intrinsics[rtPkg+"Symbolic"] = func(in *Interp, _ *frame, _ *ssa.Function, a []Value) Value {
		return in.tt.True // "running under the engine" (also in concrete validation mode)
	}
	intrinsics[rtPkg+"Bound"] = func(in *Interp, _ *frame, _ *ssa.Function, a []Value) Value {
		in.res.Bounds[in.argStr(a[0])] = fmt.Sprint(in.concreteInt(a[1].(*Term), true))
		return nil
	}
	intrinsics[rtPkg+"Note"] = func(in *Interp, _ *frame, _ *ssa.Function, a []Value) Value {
		in.res.Bounds["note:"+in.argStr(a[0])] = "1"
		return nil
	}
	intrinsics[rtPkg+"OnBlocked"] = func(in *Interp, _ *frame, _ *ssa.Function, a []Value) Value {
		in.onBlocked = append(in.onBlocked, a[0])
		return nil
	}
	intrinsics[rtPkg+"SetDigestLen"] = func(in *Interp, _ *frame, _ *ssa.Function, a []Value) Value {
		n := int(in.concreteInt(a[0].(*Term), true))
		if in.hashLen != 0 && in.hashLen != n {
			in.unsupported("digest length changed within a path")
		}
		in.hashLen = n
		in.res.Bounds["digest_len_bytes"] = fmt.Sprint(n)
		return nil
	}
	intrinsics[rtPkg+"HashBytes"] = func(in *Interp, _ *frame, _ *ssa.Function, a []Value) Value {
		parts := a[0].(Slice)
		var bs []*Term
		for i := 0; i < parts.Len; i++ {
			p := (*parts.At(i)).(Slice)
			bs = append(bs, in.sliceBytes(p)...)
		}
		return in.bytesToSlice(in.hashBytes(bs))
	}
	intrinsics[rtPkg+"Try"] = func(in *Interp, caller *frame, _ *ssa.Function, a []Value) Value {
		return in.tt.Bool(in.try(caller, a[0]))
	}
	intrinsics[rtPkg+"NoPanic"] = func(in *Interp, caller *frame, _ *ssa.Function, a []Value) Value {
		label := in.argStr(a[1])
		if in.try(caller, a[0]) {
			pos, _ := in.scratch["lastPanicPos"].(string)
			msg, _ := in.scratch["lastPanic"].(string)
			in.syncPC()
			in.res.addViolation(in, label+"@"+pos, "panic: "+msg, in.modelFor(nil))
			return in.tt.False
		}
		in.res.AssertsConc++
		return in.tt.True
	}
	intrinsics[rtPkg+"Param"] = func(in *Interp, _ *frame, _ *ssa.Function, a []Value) Value {
		name := in.argStr(a[0])
		def := in.concreteInt(a[1].(*Term), true)
		if v, ok := in.cfg.Params[name]; ok {
			def = int64(v)
		}
		in.res.Bounds[name] = fmt.Sprint(def)
		return in.tt.Const(64, uint64(def))
	}
	intrinsics[rtPkg+"Trace"] = func(in *Interp, _ *frame, _ *ssa.Function, a []Value) Value {
		label := in.argStr(a[0])
		bs := in.sliceBytes(a[1].(Slice))
		var sb strings.Builder
		for _, b := range bs {
			if b.IsConst() {
				fmt.Fprintf(&sb, "%02x", b.Val)
			} else {
				sb.WriteString("??")
			}
		}
		in.res.Traces = append(in.res.Traces, label+"="+sb.String())
		if os.Getenv("VERIF_DEBUG_TERMS") != "" && len(bs) > 0 && bs[0].Op == OApp && len(bs[0].Args) == 1 {
			fmt.Fprintf(os.Stderr, "TRACE-TERM %s = %s\n", label, bs[0].Args[0].str(12))
		}
		return nil
	}
	intrinsics[rtPkg+"TraceInt"] = func(in *Interp, _ *frame, _ *ssa.Function, a []Value) Value {
		label := in.argStr(a[0])
		t := a[1].(*Term)
		if t.IsConst() {
			in.res.Traces = append(in.res.Traces, fmt.Sprintf("%s=%d", label, t.Val))
		} else {
			in.res.Traces = append(in.res.Traces, label+"=?")
		}
		return nil
	}
	// Concurrently(f): f is an activity of another thread of control started at this
	// point. It runs to completion unless it has to wait for a lock that is held
	// here; then its effects on locks are undone and false is returned (the caller
	// re-runs it once the lock is free).
	intrinsics[rtPkg+"Concurrently"] = func(in *Interp, caller *frame, _ *ssa.Function, a []Value) (res Value) {
		depth := in.depth
		stack := len(in.callStack)
		saved := map[*Value]mutexState{}
		for k, v := range in.mutexes {
			saved[k] = *v
		}
		in.probing++
		defer func() {
			in.probing--
			if r := recover(); r != nil {
				if _, ok := r.(probeBlocked); ok {
					in.depth = depth
					in.callStack = in.callStack[:stack]
					for k, v := range in.mutexes {
						if s, ok := saved[k]; ok {
							*v = s
						} else {
							*v = mutexState{}
						}
					}
					res = in.tt.False
					return
				}
				panic(r)
			}
		}()
		in.call(caller, token.NoPos, a[0], nil)
		return in.tt.True
	}
	// Terminates(f, label): f must finish within the engine's instruction and
	// recursion budgets; running out of either is reported as a violation
	// "<label>:no-termination" (unbounded recursion / loop on this input).
	intrinsics[rtPkg+"Terminates"] = func(in *Interp, caller *frame, _ *ssa.Function, a []Value) (res Value) {
		label := in.argStr(a[1])
		depth := in.depth
		stack := len(in.callStack)
		startSteps := in.steps
		defer func() {
			if r := recover(); r != nil {
				if pa, ok := r.(pathAbort); ok && pa.kind == "budget" {
					in.depth = depth
					in.callStack = in.callStack[:stack]
					in.steps = startSteps
					in.syncPC()
					in.res.addViolation(in, label+":no-termination", pa.detail, in.modelFor(nil))
					res = in.tt.False
					return
				}
				panic(r)
			}
		}()
		in.call(caller, token.NoPos, a[0], nil)
		return in.tt.True
	}
	// SharedWrites(f, g, label): f and g are bodies of two activities that may run
	// concurrently. Both are executed (one after the other) while every write to a
	// memory cell is recorded with the locks held; a cell written by both without a
	// common lock is shared mutable state without synchronisation: violation
	// "lockset:<label>" (confirmed natively by the entry's "...Race" witness).
	intrinsics[rtPkg+"SharedWrites"] = func(in *Interp, caller *frame, _ *ssa.Function, a []Value) Value {
		label := in.argStr(a[2])
		run := func(f Value) map[*Value][]*Value {
			in.recording = map[*Value][]*Value{}
			defer func() { in.recording = nil }()
			in.call(caller, token.NoPos, f, nil)
			return in.recording
		}
		wa := run(a[0])
		wb := run(a[1])
		shared := 0
		for cell, la := range wa {
			lb, both := wb[cell]
			if !both {
				continue
			}
			common := false
			for _, x := range la {
				for _, y := range lb {
					if x == y {
						common = true
					}
				}
			}
			if !common {
				shared++
			}
		}
		if shared > 0 {
			in.res.addViolation(in, "lockset:"+label, fmt.Sprintf("%d memory cell(s) written by both activities without a common lock", shared), in.modelFor(nil))
			return in.tt.True
		}
		in.res.AssertsConc++
		return in.tt.False
	}
	intrinsics[rtPkg+"Join"] = func(in *Interp, _ *frame, _ *ssa.Function, a []Value) Value { return nil }
	intrinsics[rtPkg+"PanicMsg"] = func(in *Interp, _ *frame, _ *ssa.Function, a []Value) Value {
		if s, ok := in.scratch["lastPanic"].(string); ok {
			return s
		}
		return ""
	}
	intrinsics[rtPkg+"GuardedBy"] = func(in *Interp, _ *frame, _ *ssa.Function, a []Value) Value {
		p := a[0].(Iface).V.(*Value)
		mi := a[1].(Iface)
		mu := mi.V.(*Value)
		// a pointer to a struct that embeds its lock: the lock is the embedded sync.Mutex / sync.RWMutex field
		if pt, ok := mi.T.Underlying().(*types.Pointer); ok {
			if st, ok := pt.Elem().Underlying().(*types.Struct); ok {
				if sv, ok := (*mu).(Struct); ok {
					for i := 0; i < st.NumFields(); i++ {
						ts := st.Field(i).Type().String()
						if ts == "sync.Mutex" || ts == "sync.RWMutex" {
							mu = &sv[i]
							break
						}
					}
				}
			}
		}
		in.watch[p] = &watchInfo{label: in.argStr(a[2]), mu: mu}
		return nil
	}
	intrinsics[rtPkg+"Unguard"] = func(in *Interp, _ *frame, _ *ssa.Function, a []Value) Value {
		in.watch = map[*Value]*watchInfo{}
		return nil
	}

	// ---- sync ----
	lock := func(write bool) intrinsic {
		return func(in *Interp, _ *frame, fn *ssa.Function, a []Value) Value {
			mu := a[0].(*Value)
			ms := in.mutexes[mu]
			if ms == nil {
				ms = &mutexState{}
				in.mutexes[mu] = ms
			}
			if write {
				if ms.writer || ms.readers > 0 {
					if in.probing > 0 {
						panic(probeBlocked{}) // a concurrent activity would wait here
					}
					in.res.addViolation(in, "deadlock", "Lock on a mutex already held by this thread of control at "+in.posStr(in.curPos), nil)
					in.blocked("self-deadlock")
				}
				ms.writer = true
			} else {
				if ms.writer {
					if in.probing > 0 {
						panic(probeBlocked{})
					}
					in.res.addViolation(in, "deadlock", "RLock on a mutex write-held by this thread of control at "+in.posStr(in.curPos), nil)
					in.blocked("self-deadlock")
				}
				ms.readers++
			}
			return nil
		}
	}
	unlock := func(write bool) intrinsic {
		return func(in *Interp, _ *frame, fn *ssa.Function, a []Value) Value {
			mu := a[0].(*Value)
			ms := in.mutexes[mu]
			if ms == nil || (write && !ms.writer) || (!write && ms.readers == 0) {
				panic(targetPanic{v: Iface{T: types.Typ[types.String], V: "sync: unlock of unlocked mutex"}, msg: "fatal error: sync: unlock of unlocked mutex", pos: in.posStr(in.curPos)})
			}
			if write {
				ms.writer = false
			} else {
				ms.readers--
			}
			return nil
		}
	}
	intrinsics["(*sync.Mutex).Lock"] = lock(true)
	intrinsics["(*sync.Mutex).Unlock"] = unlock(true)
	intrinsics["(*sync.RWMutex).Lock"] = lock(true)
	intrinsics["(*sync.RWMutex).Unlock"] = unlock(true)
	intrinsics["(*sync.RWMutex).RLock"] = lock(false)
	intrinsics["(*sync.RWMutex).RUnlock"] = unlock(false)
	nop := func(in *Interp, _ *frame, fn *ssa.Function, a []Value) Value { return nil }
	intrinsics["(*sync.WaitGroup).Add"] = nop
	intrinsics["(*sync.WaitGroup).Done"] = nop
	intrinsics["(*sync.WaitGroup).Wait"] = nop
	intrinsics["(*sync.Once).Do"] = func(in *Interp, caller *frame, fn *ssa.Function, a []Value) Value {
		o := a[0].(*Value)
		key := fmt.Sprintf("once%p", o)
		if in.scratch[key] == nil {
			in.scratch[key] = true
			in.call(caller, token.NoPos, a[1], nil)
		}
		return nil
	}
	// sync.Pool: Get may return any object Put earlier or a new one. Both are explored: when
	// the pool holds something the path forks (reuse the most recent / allocate), so that
	// state leaking through a recycled object is reachable. In concrete mode (translator
	// validation) the most recent object is reused, as a single goroutine sees natively.
	intrinsics["(*sync.Pool).Get"] = func(in *Interp, caller *frame, fn *ssa.Function, a []Value) Value {
		p := a[0].(*Value)
		key := fmt.Sprintf("pool%p", p)
		if held, _ := in.scratch[key].([]Value); len(held) > 0 {
			reuse := true
			if in.cfg.Concrete == nil {
				name := in.newInputName("sync.Pool-reuse")
				k := in.choose(name, 2)
				in.inputs = append(in.inputs, &Input{Name: name, Kind: "choice", T: []*Term{in.tt.Const(64, uint64(k))}, W: 64})
				reuse = k == 1
			}
			if reuse {
				v := held[len(held)-1]
				in.scratch[key] = held[:len(held)-1]
				return v
			}
		}
		st := (*p).(Struct)
		newFn := st[len(st)-1]
		switch f := newFn.(type) {
		case *ssa.Function:
			if f == nil {
				return Iface{}
			}
		case nil:
			return Iface{}
		}
		return in.call(caller, token.NoPos, newFn, nil)
	}
	intrinsics["(*sync.Pool).Put"] = func(in *Interp, _ *frame, _ *ssa.Function, a []Value) Value {
		p := a[0].(*Value)
		key := fmt.Sprintf("pool%p", p)
		held, _ := in.scratch[key].([]Value)
		in.scratch[key] = append(held, a[1])
		return nil
	}

	// ---- sync/atomic ----
	atomicAdd := func(in *Interp, _ *frame, fn *ssa.Function, a []Value) Value {
		p := a[0].(*Value)
		nv := in.tt.Bin(OAdd, (*p).(*Term), a[1].(*Term))
		*p = nv
		return nv
	}
	atomicLoad := func(in *Interp, _ *frame, fn *ssa.Function, a []Value) Value {
		return in.load(nil, a[0].(*Value))
	}
	atomicStore := func(in *Interp, _ *frame, fn *ssa.Function, a []Value) Value {
		in.store(nil, a[0].(*Value), a[1])
		return nil
	}
	atomicSwap := func(in *Interp, _ *frame, fn *ssa.Function, a []Value) Value {
		p := a[0].(*Value)
		old := *p
		*p = a[1]
		return old
	}
	atomicCAS := func(in *Interp, _ *frame, fn *ssa.Function, a []Value) Value {
		p := a[0].(*Value)
		if in.branch(in.eqValue(*p, a[1])) {
			*p = a[2]
			return in.tt.True
		}
		return in.tt.False
	}
	for _, ty := range []string{"Int32", "Int64", "Uint32", "Uint64", "Uintptr", "Pointer"} {
		intrinsics["sync/atomic.Add"+ty] = atomicAdd
		intrinsics["sync/atomic.Load"+ty] = atomicLoad
		intrinsics["sync/atomic.Store"+ty] = atomicStore
		intrinsics["sync/atomic.Swap"+ty] = atomicSwap
		intrinsics["sync/atomic.CompareAndSwap"+ty] = atomicCAS
	}

	// ---- bytes / strings helpers implemented on terms ----
	intrinsics["internal/bytealg.Compare"] = func(in *Interp, _ *frame, fn *ssa.Function, a []Value) Value {
		x := in.sliceBytes(a[0].(Slice))
		y := in.sliceBytes(a[1].(Slice))
		return in.cmpResult(x, y)
	}
	intrinsics["bytes.Compare"] = intrinsics["internal/bytealg.Compare"]
	intrinsics["bytes.Equal"] = func(in *Interp, _ *frame, fn *ssa.Function, a []Value) Value {
		return in.eqBytes(in.sliceBytes(a[0].(Slice)), in.sliceBytes(a[1].(Slice)))
	}
	intrinsics["strings.Compare"] = func(in *Interp, _ *frame, fn *ssa.Function, a []Value) Value {
		return in.cmpResult(in.strTerms(a[0]), in.strTerms(a[1]))
	}
	intrinsics["internal/bytealg.IndexByte"] = func(in *Interp, _ *frame, fn *ssa.Function, a []Value) Value {
		return in.indexByte(in.sliceBytes(a[0].(Slice)), a[1].(*Term))
	}
	intrinsics["internal/bytealg.IndexByteString"] = func(in *Interp, _ *frame, fn *ssa.Function, a []Value) Value {
		return in.indexByte(in.strTerms(a[0]), a[1].(*Term))
	}
	intrinsics["bytes.IndexByte"] = intrinsics["internal/bytealg.IndexByte"]
	intrinsics["strings.IndexByte"] = intrinsics["internal/bytealg.IndexByteString"]
	intrinsics["strings.Index"] = func(in *Interp, _ *frame, fn *ssa.Function, a []Value) Value {
		return in.indexSeq(in.strTerms(a[0]), in.strTerms(a[1]))
	}
	intrinsics["bytes.Index"] = func(in *Interp, _ *frame, fn *ssa.Function, a []Value) Value {
		return in.indexSeq(in.sliceBytes(a[0].(Slice)), in.sliceBytes(a[1].(Slice)))
	}
	intrinsics["internal/bytealg.IndexString"] = intrinsics["strings.Index"]
	intrinsics["internal/bytealg.Index"] = intrinsics["bytes.Index"]
	intrinsics["strings.Count"] = func(in *Interp, _ *frame, fn *ssa.Function, a []Value) Value {
		s, sep := in.strTerms(a[0]), in.strTerms(a[1])
		if len(sep) == 0 {
			in.unsupported("strings.Count with empty separator")
		}
		n := 0
		for {
			i := in.indexSeqInt(s, sep)
			if i < 0 {
				break
			}
			n++
			s = s[i+len(sep):]
		}
		return in.tt.Const(64, uint64(n))
	}
	intrinsics["internal/bytealg.CountString"] = func(in *Interp, _ *frame, fn *ssa.Function, a []Value) Value {
		s := in.strTerms(a[0])
		c := a[1].(*Term)
		n := 0
		for _, b := range s {
			if in.branch(in.tt.Eq(b, c)) {
				n++
			}
		}
		return in.tt.Const(64, uint64(n))
	}
	intrinsics["(*strings.Builder).String"] = func(in *Interp, _ *frame, fn *ssa.Function, a []Value) Value {
		b := a[0].(*Value)
		st := (*b).(Struct)
		buf := st[1].(Slice)
		return in.mkStr(in.sliceBytes(buf))
	}
	intrinsics["(*strings.Builder).copyCheck"] = nop
	ident := func(in *Interp, _ *frame, fn *ssa.Function, a []Value) Value { return a[0] }
	intrinsics["strings.Clone"] = ident
	intrinsics["internal/stringslite.Clone"] = ident
	intrinsics["strconv.cloneString"] = ident
	intrinsics["internal/bytealg.MakeNoZero"] = func(in *Interp, _ *frame, fn *ssa.Function, a []Value) Value {
		n := int(in.concreteInt(a[0].(*Term), true))
		return Slice{B: in.newBacking(types.Typ[types.Uint8], n), Len: n, Cap: n}
	}

	// ---- sort ----
	intrinsics["sort.Slice"] = func(in *Interp, caller *frame, fn *ssa.Function, a []Value) Value {
		s := a[0].(Iface).V.(Slice)
		less := a[1]
		// insertion sort driven by the user's less (stable enough: sort.Slice gives no stability guarantee)
		for i := 1; i < s.Len; i++ {
			for j := i; j > 0; j-- {
				r := in.call(caller, token.NoPos, less, []Value{in.tt.Const(64, uint64(j)), in.tt.Const(64, uint64(j-1))})
				if !in.branch(r.(*Term)) {
					break
				}
				pa, pb := s.At(j), s.At(j-1)
				*pa, *pb = *pb, *pa
			}
		}
		return nil
	}
	intrinsics["sort.SliceStable"] = intrinsics["sort.Slice"]

	// ---- time / os / runtime ----
	intrinsics["time.Now"] = func(in *Interp, _ *frame, fn *ssa.Function, a []Value) Value {
		in.res.Stubs["time.Now"]++
		return in.zero(fn.Signature.Results().At(0).Type())
	}
	intrinsics["time.Since"] = func(in *Interp, _ *frame, fn *ssa.Function, a []Value) Value {
		return in.tt.Const(64, 0)
	}
	intrinsics["time.Until"] = intrinsics["time.Since"]
	intrinsics["time.Sleep"] = func(in *Interp, _ *frame, fn *ssa.Function, a []Value) Value {
		in.res.Stubs["time.Sleep"]++
		return nil
	}
	intrinsics["os.Exit"] = func(in *Interp, _ *frame, fn *ssa.Function, a []Value) Value {
		panic(targetPanic{v: Iface{T: types.Typ[types.String], V: "os.Exit"}, msg: "os.Exit called", pos: in.posStr(in.curPos)})
	}
	intrinsics["os.Getenv"] = func(in *Interp, _ *frame, fn *ssa.Function, a []Value) Value { return "" }
	// context.WithValue without its reflection-based comparability check
	intrinsics["context.WithValue"] = func(in *Interp, _ *frame, fn *ssa.Function, a []Value) Value {
		cp := in.prog.ImportedPackage("context")
		if cp == nil || cp.Type("valueCtx") == nil {
			in.unsupported("context.valueCtx not found")
		}
		vt := cp.Type("valueCtx").Object().Type()
		cell := new(Value)
		*cell = Struct{a[0], a[1], a[2]}
		return Iface{T: types.NewPointer(vt), V: cell}
	}
	intrinsics["github.com/pkg/errors.callers"] = func(in *Interp, _ *frame, fn *ssa.Function, a []Value) Value {
		return (*Value)(nil) // no stack trace is recorded under the engine
	}
	intrinsics["runtime.Callers"] = func(in *Interp, _ *frame, fn *ssa.Function, a []Value) Value {
		return in.tt.Const(64, 0)
	}
	intrinsics["runtime.KeepAlive"] = nop
	intrinsics["runtime.GC"] = nop
	intrinsics["runtime.Gosched"] = nop
	intrinsics["runtime.SetFinalizer"] = nop
	intrinsics["runtime.NumCPU"] = func(in *Interp, _ *frame, fn *ssa.Function, a []Value) Value { return in.tt.Const(64, 1) }
	intrinsics["runtime.GOMAXPROCS"] = func(in *Interp, _ *frame, fn *ssa.Function, a []Value) Value { return in.tt.Const(64, 1) }

	// ---- fmt ----
	intrinsics["fmt.Sprintf"] = func(in *Interp, caller *frame, fn *ssa.Function, a []Value) Value {
		return in.sprintf(caller, in.argStr(a[0]), a[1].(Slice))
	}
	intrinsics["fmt.Errorf"] = func(in *Interp, caller *frame, fn *ssa.Function, a []Value) Value {
		s := in.sprintf(caller, in.argStr(a[0]), a[1].(Slice))
		return in.newError(s)
	}
	intrinsics["fmt.Sprint"] = func(in *Interp, caller *frame, fn *ssa.Function, a []Value) Value {
		sl := a[0].(Slice)
		return in.sprintf(caller, strings.TrimSpace(strings.Repeat("%v ", sl.Len)), sl)
	}
	intrinsics["fmt.Sprintln"] = func(in *Interp, caller *frame, fn *ssa.Function, a []Value) Value {
		sl := a[0].(Slice)
		r := in.sprintf(caller, strings.TrimSpace(strings.Repeat("%v ", sl.Len)), sl)
		return in.binop(token.ADD, types.Typ[types.String], r, "\n", nil)
	}
	// Fprintf into a writer of the program (e.g. a bytes.Buffer): format, then call its Write
	intrinsics["fmt.Fprintf"] = func(in *Interp, caller *frame, fn *ssa.Function, a []Value) Value {
		w, _ := a[0].(Iface)
		if _, isD := w.V.(Dummy); isD || w.T == nil {
			return in.blackholeResult(fn.Signature)
		}
		wm := in.findMethod(w.T, "Write")
		if wm == nil {
			return in.blackholeResult(fn.Signature)
		}
		s := in.sprintf(caller, in.argStr(a[1]), a[2].(Slice))
		bs := in.bytesToSlice(in.strTerms(s))
		r := in.call(caller, token.NoPos, wm, []Value{w.V, bs})
		return r
	}
	for _, n := range []string{"fmt.Printf", "fmt.Println", "fmt.Print", "fmt.Fprintln", "fmt.Fprint"} {
		name := n
		intrinsics[name] = func(in *Interp, _ *frame, fn *ssa.Function, a []Value) Value {
			in.res.Stubs[name]++
			return in.blackholeResult(fn.Signature)
		}
	}
	intrinsics["errors.New"] = func(in *Interp, _ *frame, fn *ssa.Function, a []Value) Value {
		return in.newError(a[0])
	}
}

// newError builds an *errors.errorString value.
func (in *Interp) newError(msg Value) Value {
	ep := in.prog.ImportedPackage("errors")
	if ep == nil {
		in.unsupported("errors package not loaded")
	}
	et := ep.Type("errorString").Object().Type()
	cell := new(Value)
	*cell = Struct{msg}
	return Iface{T: types.NewPointer(et), V: cell}
}

func (in *Interp) try(caller *frame, f Value) (panicked bool) {
	depth := in.depth
	stack := len(in.callStack)
	defer func() {
		r := recover()
		if r == nil {
			return
		}
		if tp, ok := r.(targetPanic); ok {
			panicked = true
			in.depth = depth
			in.callStack = in.callStack[:stack]
			in.scratch["lastPanic"] = tp.msg + " at " + tp.pos
			in.scratch["lastPanicPos"] = tp.pos
			return
		}
		panic(r)
	}()
	in.call(caller, token.NoPos, f, nil)
	return false
}

func (in *Interp) cmpResult(x, y []*Term) Value {
	lt, eq := in.cmpBytes(x, y)
	w := 64
	return in.tt.Ite(lt, in.tt.Const(w, ^uint64(0)), in.tt.Ite(eq, in.tt.Const(w, 0), in.tt.Const(w, 1)))
}

func (in *Interp) indexByte(s []*Term, c *Term) Value {
	for i, b := range s {
		if in.branch(in.tt.Eq(b, c)) {
			return in.tt.Const(64, uint64(i))
		}
	}
	return in.tt.Const(64, ^uint64(0))
}

func (in *Interp) indexSeqInt(s, sep []*Term) int {
	n := len(sep)
	for i := 0; i+n <= len(s); i++ {
		if in.branch(in.eqBytes(s[i:i+n], sep)) {
			return i
		}
	}
	return -1
}

func (in *Interp) indexSeq(s, sep []*Term) Value {
	return in.tt.Const(64, uint64(int64(in.indexSeqInt(s, sep))))
}

// ---- fmt.Sprintf summary ----

func (in *Interp) nativeArg(caller *frame, v Value) (interface{}, bool) {
	itf, ok := v.(Iface)
	if !ok {
		return nil, false
	}
	if itf.T == nil {
		return nil, true
	}
	// error / Stringer first
	if _, isD := itf.V.(Dummy); isD {
		return "<dummy>", true
	}
	for _, m := range []string{"Error", "String"} {
		if f := in.findMethod(itf.T, m); f != nil && f.Signature.Params().Len() == 0 && f.Signature.Results().Len() == 1 {
			if b, ok := f.Signature.Results().At(0).Type().Underlying().(*types.Basic); ok && b.Kind() == types.String {
				if p, isPtr := itf.V.(*Value); isPtr && p == nil {
					return "<nil>", true
				}
				r := in.call(caller, token.NoPos, f, []Value{itf.V})
				if s, ok := r.(string); ok {
					return s, true
				}
				return "<sym>", false
			}
		}
	}
	return in.nativeOf(itf.T, itf.V)
}

// stringerOf: fmt calls Error()/String() on operands and on exported struct fields and
// elements that implement them (handleMethods at every depth where the value is
// interface-able); rendered here by interpreting the program's own method.
func (in *Interp) stringerOf(t types.Type, v Value) (interface{}, bool, bool) {
	if t == nil || in.fmtCaller == nil {
		return nil, false, false
	}
	if _, named := t.(*types.Named); !named {
		return nil, false, false
	}
	for _, m := range []string{"Error", "String"} {
		f := in.findMethod(t, m)
		if f == nil || f.Signature.Params().Len() != 0 || f.Signature.Results().Len() != 1 {
			continue
		}
		if b, ok := f.Signature.Results().At(0).Type().Underlying().(*types.Basic); !ok || b.Kind() != types.String {
			continue
		}
		if recv := f.Signature.Recv(); recv != nil {
			if _, ptr := recv.Type().(*types.Pointer); ptr {
				continue // pointer-receiver method: not in the method set of the value
			}
		}
		r := in.call(in.fmtCaller, token.NoPos, f, []Value{v})
		if s, ok := r.(string); ok {
			return s, true, true
		}
		return "<sym>", false, true
	}
	return nil, false, false
}

func (in *Interp) nativeOf(t types.Type, v Value) (interface{}, bool) {
	if in.fmtDepth > 0 {
		if s, ok, has := in.stringerOf(t, v); has {
			return s, ok
		}
	}
	in.fmtDepth++
	defer func() { in.fmtDepth-- }()
	switch x := v.(type) {
	case *Term:
		if !x.IsConst() {
			return "<sym>", false
		}
		if x.S.K == SBool {
			return x.Val == 1, true
		}
		if b, ok := t.Underlying().(*types.Basic); ok {
			switch b.Kind() {
			case types.Uint8:
				return uint8(x.Val), true
			case types.Int32:
				return int32(x.Val), true
			}
			if b.Info()&types.IsUnsigned != 0 {
				return x.Val, true
			}
		}
		return sext64(x.Val, x.S.W), true
	case string:
		return x, true
	case SymStr:
		return "<sym>", false
	case float64:
		return x, true
	case Slice:
		if st, ok := t.Underlying().(*types.Slice); ok && isByteType(st.Elem()) {
			buf := make([]byte, x.Len)
			for i := 0; i < x.Len; i++ {
				b := (*x.At(i)).(*Term)
				if !b.IsConst() {
					return "<sym>", false
				}
				buf[i] = byte(b.Val)
			}
			return buf, true
		}
		var elems []interface{}
		okAll := true
		var et types.Type
		if st, ok := t.Underlying().(*types.Slice); ok {
			et = st.Elem()
		}
		for i := 0; i < x.Len; i++ {
			e, ok := in.nativeOf(et, *x.At(i))
			okAll = okAll && ok
			elems = append(elems, e)
		}
		return elems, okAll
	case *Value:
		if x == nil {
			return nil, true
		}
		// fmt prints a pointer to a struct as &{...}
		if t != nil {
			if pt, ok := t.Underlying().(*types.Pointer); ok {
				if st, isStruct := (*x).(Struct); isStruct {
					inner, ok := in.nativeOf(pt.Elem(), st)
					return "&" + fmt.Sprint(inner), ok
				}
			}
		}
		return fmt.Sprintf("%p", x), true
	case Struct:
		var parts []string
		okAll := true
		st, _ := t.Underlying().(*types.Struct)
		for i, f := range x {
			var ft types.Type
			if st != nil {
				ft = st.Field(i).Type()
			}
			saved := in.fmtCaller
			if st != nil && !st.Field(i).Exported() {
				in.fmtCaller = nil // fmt does not call methods on unexported fields
			}
			e, ok := in.nativeOf(ft, f)
			in.fmtCaller = saved
			okAll = okAll && ok
			parts = append(parts, fmt.Sprint(e))
		}
		return "{" + strings.Join(parts, " ") + "}", okAll
	case Iface:
		if x.T == nil {
			return nil, true
		}
		return in.nativeOf(x.T, x.V)
	case nil:
		return nil, true
	}
	return fmt.Sprintf("<%T>", v), true
}

func (in *Interp) sprintf(caller *frame, format string, args Slice) Value {
	in.fmtCaller = caller
	in.fmtDepth = 0
	defer func() { in.fmtCaller = nil }()
	nat := make([]interface{}, args.Len)
	exact := true
	for i := 0; i < args.Len; i++ {
		v, ok := in.nativeArg(caller, *args.At(i))
		nat[i] = v
		exact = exact && ok
	}
	if !exact {
		in.res.Stubs["fmt.Sprintf(symbolic)"]++
	}
	return fmt.Sprintf(format, nat...)
}

var _ = strconv.Itoa
