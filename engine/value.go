package main

// Value representation of the symbolic interpreter.
//
//   bool, all integer types    *Term (Bool / BV n)
//   float32/64                 float64 (concrete only)
//   string                     string (concrete) or SymStr (symbolic bytes, concrete length)
//   *T                         *Value (cell pointer; nil pointer is (*Value)(nil))
//   struct                     Struct (copied on load/store)
//   [n]T                       Array  (copied on load/store)
//   []T                        Slice{B,Off,Len,Cap}
//   map                        *Map
//   chan                       *Chan
//   func                       *ssa.Function, *Closure, *ssa.Builtin, nil
//   interface                  Iface{T,V}
//   tuple                      Tuple
//   values of black-holed pkgs Dummy

import (
	"fmt"
	"go/types"
	"strings"

	"golang.org/x/tools/go/ssa"
)

type Value = interface{}

type Struct []Value
type Array []Value
type Tuple []Value

type SymStr struct{ B []*Term }

type Iface struct {
	T types.Type
	V Value
}

type Closure struct {
	Fn  *ssa.Function
	Env []Value
}

type Dummy struct{ Note string }

const pageSize = 4096

type Backing struct {
	dense []Value
	pages map[int]*[pageSize]Value
	n     int
	zero  Value // zero element for lazily created pages (scalars only)
}

func (b *Backing) at(i int) *Value {
	if b.dense != nil {
		return &b.dense[i]
	}
	if i < 0 || i >= b.n {
		panic("backing index out of range")
	}
	p := b.pages[i/pageSize]
	if p == nil {
		p = new([pageSize]Value)
		for j := range p {
			p[j] = b.zero
		}
		b.pages[i/pageSize] = p
	}
	return &p[i%pageSize]
}

type Slice struct {
	B             *Backing
	Off, Len, Cap int
}

func (s Slice) IsNil() bool { return s.B == nil }

func (s Slice) At(i int) *Value { return s.B.at(s.Off + i) }

type mapEntry struct {
	k, v    Value
	deleted bool
	kstr    string // canonical string when the key is concrete, else ""
}

type Map struct {
	KeyT    types.Type
	entries []*mapEntry
	index   map[string]*mapEntry
	live    int
	symKeys int // number of live entries whose key is not concrete
	// lazy != "": adversary-controlled map of digests: every key looked up is
	// present with a fresh free digest; len() is lazySize.
	lazy     string
	lazySize int
}

type Chan struct {
	buf    []Value
	cap    int
	closed bool
	elemT  types.Type
}

type targetPanic struct {
	v   Value
	msg string
	pos string
}

// pathAbort is raised (as a Go panic) to terminate the current path without
// running target defers.
type pathAbort struct {
	kind   string // "infeasible", "budget", "unsupported", "blocked", "done", "violation-stop"
	detail string
}

func isConcreteScalar(v Value) bool {
	switch v := v.(type) {
	case *Term:
		return v.IsConst()
	case string, float64, float32:
		return true
	}
	return false
}

// concreteKey returns a canonical string for fully concrete comparable values.
func concreteKey(v Value) (string, bool) {
	switch v := v.(type) {
	case *Term:
		if v.IsConst() {
			return fmt.Sprintf("i%d:%d", v.S.W, v.Val), true
		}
		return "", false
	case string:
		return "s" + v, true
	case SymStr:
		return "", false
	case float64:
		return fmt.Sprintf("f%v", v), true
	case *Value:
		return fmt.Sprintf("p%p", v), true
	case Struct:
		var sb strings.Builder
		sb.WriteString("{")
		for _, f := range v {
			k, ok := concreteKey(f)
			if !ok {
				return "", false
			}
			sb.WriteString(k)
			sb.WriteString(";")
		}
		sb.WriteString("}")
		return sb.String(), true
	case Array:
		var sb strings.Builder
		sb.WriteString("[")
		for _, f := range v {
			k, ok := concreteKey(f)
			if !ok {
				return "", false
			}
			sb.WriteString(k)
			sb.WriteString(";")
		}
		sb.WriteString("]")
		return sb.String(), true
	case Iface:
		if v.T == nil {
			return "nil", true
		}
		k, ok := concreteKey(v.V)
		if !ok {
			return "", false
		}
		return "I(" + v.T.String() + ")" + k, true
	case *Map:
		return fmt.Sprintf("m%p", v), true
	case *Chan:
		return fmt.Sprintf("c%p", v), true
	case nil:
		return "nilv", true
	}
	return "", false
}

func copyVal(v Value) Value {
	switch v := v.(type) {
	case Struct:
		a := make(Struct, len(v))
		for i := range v {
			a[i] = copyVal(v[i])
		}
		return a
	case Array:
		a := make(Array, len(v))
		for i := range v {
			a[i] = copyVal(v[i])
		}
		return a
	}
	return v
}

func isByteString(v Value) bool {
	switch v.(type) {
	case string, SymStr:
		return true
	}
	return false
}
