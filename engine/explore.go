package main

import (
	"fmt"
	"os"
	"regexp"
	"runtime/debug"
	"sort"
	"strings"
	"sync"
	"time"

	"golang.org/x/tools/go/ssa"
)

type Config struct {
	Blackhole       []string
	InitAllow       []string
	MaxSteps        int64
	MaxDepth        int
	SolverTimeoutMS int
	Workers         int
	MaxPaths        int
	Solver          string
	TimeBudget      time.Duration
	StopOnViolation bool
	Trace           bool
	SolverLog       string
	Params          map[string]int
	SampleModels    int
	Seed            int
	Redirects       map[string]*ssa.Function // callee full name -> replacement (environment model in the harness)
	AfterViolation  int                      // stop this many paths after the first counterexample (0 = never)
	Concrete        map[string]InputValue // non-nil: concrete mode (inputs fixed, real SHA-256)
	bhCache         sync.Map
}

func (c *Config) isBlackhole(path string) bool {
	if v, ok := c.bhCache.Load(path); ok {
		return v.(bool)
	}
	r := false
	for _, p := range c.Blackhole {
		if path == p || strings.HasPrefix(path, p+"/") {
			r = true
			break
		}
	}
	c.bhCache.Store(path, r)
	return r
}

func (c *Config) skipInit(path string) bool {
	for _, p := range c.InitAllow {
		if path == p || (strings.Contains(p, ".") && strings.HasPrefix(path, p+"/")) {
			return false
		}
	}
	return true
}

type InputValue struct {
	Name  string `json:"name"`
	Kind  string `json:"kind"`
	Value string `json:"value"`
}

type Violation struct {
	Label     string       `json:"label"`
	Msg       string       `json:"msg"`
	Inputs    []InputValue `json:"inputs"`
	Pos       string       `json:"pos"`
	Decisions int          `json:"decisions"`
	Stack     []string     `json:"stack,omitempty"`
	// Alternates: input vectors of other explored paths that violate the same label (tried in
	// turn by the native replay when the first one does not reproduce: a model may legitimately
	// be coarser than the real environment for one vector and exact for the next)
	Alternates [][]InputValue `json:"-"`
}

type PathResult struct {
	Status       string
	Detail       string
	Violations   []*Violation
	AssertsSym   int
	AssertsConc  int
	Covers       map[string]bool
	CoverSeen    map[string]bool
	Reaches      map[string]bool
	Assumes      map[string]int
	Bounds       map[string]string
	Steps        int64
	Forks        int
	Inconclusive []string
	Sample       string
	Stubs        map[string]int
	HashApps     int
	Traces       []string
	ModelVector  []InputValue
}

func newPathResult() *PathResult {
	return &PathResult{Covers: map[string]bool{}, CoverSeen: map[string]bool{}, Reaches: map[string]bool{}, Assumes: map[string]int{}, Bounds: map[string]string{}, Stubs: map[string]int{}}
}

func (r *PathResult) addViolation(in *Interp, label, msg string, inputs []InputValue) {
	for _, v := range r.Violations {
		if v.Label == label {
			return
		}
	}
	v := &Violation{Label: label, Msg: msg, Inputs: inputs, Pos: in.posStr(in.curPos), Decisions: len(in.trace)}
	for i := len(in.callStack) - 1; i >= 0 && len(v.Stack) < 8; i-- {
		v.Stack = append(v.Stack, in.callStack[i].String())
	}
	r.Violations = append(r.Violations, v)
}

// ---- path condition handling ----

func (in *Interp) addPC(c *Term) {
	if c.IsTrue() {
		return
	}
	in.pc = append(in.pc, c)
}

func (in *Interp) syncPC() {
	for in.pcSent < len(in.pc) {
		in.sol.Assert(in.pc[in.pcSent])
		in.pcSent++
	}
}

// branch decides a symbolic condition, forking when both sides are feasible.
func (in *Interp) branch(c *Term) bool {
	if c.IsConst() {
		return c.Val == 1
	}
	if in.dpos < len(in.prefix) {
		d := in.prefix[in.dpos]
		in.dpos++
		if d.Kind != 'b' {
			in.abort("engine", "decision kind mismatch at %d: want branch, have %c", in.dpos-1, d.Kind)
		}
		in.trace = append(in.trace, d)
		if d.B {
			in.addPC(c)
		} else {
			in.addPC(in.tt.Not(c))
		}
		return d.B
	}
	in.dpos++
	in.syncPC()
	take := true
	rT := in.sol.Check(c, false)
	if rT == RUnsat {
		take = false
	} else {
		nc := in.tt.Not(c)
		rF := in.sol.Check(nc, false)
		if rF != RUnsat {
			// both sides (possibly) feasible
			if rT == RUnknown && rF == RUnknown {
				in.res.Inconclusive = append(in.res.Inconclusive, "solver unknown on both sides of a branch at "+in.posStr(in.curPos))
			}
			alt := make([]Decision, len(in.trace)+1)
			copy(alt, in.trace)
			alt[len(in.trace)] = Decision{Kind: 'b', B: false}
			in.newWork = append(in.newWork, alt)
			in.res.Forks++
			if forkDebug {
				in.res.Stubs["fork@"+in.posStr(in.curPos)]++
				if in.res.Forks < 4 {
					fmt.Fprintf(os.Stderr, "FORK at %s: %s\n", in.posStr(in.curPos), c.str(7))
				}
			}
		}
	}
	in.trace = append(in.trace, Decision{Kind: 'b', B: take})
	if take {
		in.addPC(c)
	} else {
		in.addPC(in.tt.Not(c))
	}
	return take
}

// choose makes an n-way nondeterministic choice without involving the solver.
func (in *Interp) choose(name string, n int) int {
	if n <= 0 {
		in.abort("infeasible", "choose over empty range")
	}
	if n == 1 {
		return 0
	}
	if in.dpos < len(in.prefix) {
		d := in.prefix[in.dpos]
		in.dpos++
		if d.Kind != 'v' {
			in.abort("engine", "decision kind mismatch at %d: want choice, have %c", in.dpos-1, d.Kind)
		}
		in.trace = append(in.trace, d)
		return int(d.V)
	}
	in.dpos++
	for k := n - 1; k >= 1; k-- {
		alt := make([]Decision, len(in.trace)+1)
		copy(alt, in.trace)
		alt[len(in.trace)] = Decision{Kind: 'v', V: uint64(k)}
		in.newWork = append(in.newWork, alt)
	}
	in.res.Forks += n - 1
	in.trace = append(in.trace, Decision{Kind: 'v', V: 0})
	return 0
}

// concretize forks over the feasible values of t and returns the one taken on this path.
func (in *Interp) concretize(t *Term) uint64 {
	if t.IsConst() {
		return t.Val
	}
	var excl []uint64
	if in.dpos < len(in.prefix) {
		d := in.prefix[in.dpos]
		in.dpos++
		switch d.Kind {
		case 'v':
			in.trace = append(in.trace, d)
			in.addPC(in.tt.Eq(t, in.tt.Const(t.S.W, d.V)))
			return d.V
		case 'x':
			excl = d.Excl
		default:
			in.abort("engine", "decision kind mismatch at %d: want value, have %c", in.dpos-1, d.Kind)
		}
	} else {
		in.dpos++
	}
	in.syncPC()
	cond := in.tt.True
	for _, e := range excl {
		cond = in.tt.And(cond, in.tt.Not(in.tt.Eq(t, in.tt.Const(t.S.W, e))))
	}
	in.sol.define(t)
	r := in.sol.Check(cond, true)
	if r != RSat {
		in.sol.PopCheck()
		if r == RUnknown {
			in.res.Inconclusive = append(in.res.Inconclusive, "solver unknown while concretizing at "+in.posStr(in.curPos))
		}
		in.abort("infeasible", "no further value")
	}
	vals := in.sol.GetValues([]*Term{t})
	in.sol.PopCheck()
	v, ok := parseBVValue(vals[0])
	if !ok {
		in.abort("engine", "cannot parse model value %q", vals[0])
	}
	if len(excl) > 256 {
		in.res.Inconclusive = append(in.res.Inconclusive, "concretization of a value with more than 256 feasible values at "+in.posStr(in.curPos))
	} else {
		alt := make([]Decision, len(in.trace)+1)
		copy(alt, in.trace)
		ne := make([]uint64, len(excl)+1)
		copy(ne, excl)
		ne[len(excl)] = v
		alt[len(in.trace)] = Decision{Kind: 'x', Excl: ne}
		in.newWork = append(in.newWork, alt)
		in.res.Forks++
	}
	in.trace = append(in.trace, Decision{Kind: 'v', V: v})
	for _, e := range excl {
		in.addPC(in.tt.Not(in.tt.Eq(t, in.tt.Const(t.S.W, e))))
	}
	in.addPC(in.tt.Eq(t, in.tt.Const(t.S.W, v)))
	return v
}

// ---- inputs, models ----

var nameSan = regexp.MustCompile(`[^A-Za-z0-9_.]`)

func (in *Interp) newInputName(name string) string {
	k := in.inputSeq[name]
	in.inputSeq[name] = k + 1
	if k > 0 {
		name = fmt.Sprintf("%s#%d", name, k)
	}
	return name
}

func smtName(name string) string {
	return "v_" + nameSan.ReplaceAllString(name, "_")
}

func (in *Interp) modelInputs() []InputValue {
	var ts []*Term
	type ref struct {
		in   *Input
		from int
	}
	var refs []ref
	for _, inp := range in.inputs {
		refs = append(refs, ref{inp, len(ts)})
		ts = append(ts, inp.T...)
	}
	vals := in.sol.GetValues(ts)
	var out []InputValue
	for _, r := range refs {
		n := len(r.in.T)
		vs := vals[r.from : r.from+n]
		iv := InputValue{Name: r.in.Name, Kind: r.in.Kind}
		switch r.in.Kind {
		case "bytes":
			var sb strings.Builder
			for _, v := range vs {
				u, _ := parseBVValue(v)
				fmt.Fprintf(&sb, "%02x", u)
			}
			iv.Value = sb.String()
		case "digest":
			iv.Value = vs[0]
		default:
			u, ok := parseBVValue(vs[0])
			if ok {
				iv.Value = fmt.Sprintf("%d", u)
			} else {
				iv.Value = vs[0]
			}
		}
		out = append(out, iv)
	}
	return out
}

// modelFor re-checks pc ∧ extra with every input (and, for the hash model,
// every digest and hash application) defined, and reads the model.
func (in *Interp) modelFor(extra *Term) []InputValue {
	in.predefineInputs()
	in.sol.send("(push 1)")
	in.defineAllForModel()
	var inputs []InputValue
	if in.sol.Check(extra, true) == RSat {
		inputs = in.modelInputs()
		inputs = append(inputs, in.digestModel()...)
		in.sol.PopCheck()
		in.sol.send("(pop 1)")
		return inputs
	}
	in.sol.PopCheck()
	in.sol.send("(pop 1)")
	// the model-quality constraints made it unsat/unknown: fall back to plain inputs
	if in.sol.Check(extra, true) == RSat {
		inputs = in.modelInputs()
	}
	in.sol.PopCheck()
	return inputs
}

func (in *Interp) predefineInputs() {
	for _, inp := range in.inputs {
		for _, t := range inp.T {
			in.sol.define(t)
		}
	}
}

// assertCond implements rt.Assert.
func (in *Interp) assertCond(c *Term, label string) {
	if c.IsTrue() {
		in.res.AssertsConc++
		return
	}
	in.syncPC()
	neg := in.tt.Not(c)
	r := in.sol.Check(neg, false)
	switch r {
	case RSat:
		in.res.addViolation(in, label, "assertion can fail", in.modelFor(neg))
	case RUnsat:
		in.res.AssertsSym++
	default:
		in.res.Inconclusive = append(in.res.Inconclusive, "solver unknown on assertion "+label)
	}
	if c.IsFalse() {
		in.abort("done", "assertion %s is false on this path", label)
	}
	// continue under the assumption that the assertion held
	in.assume(c, "after-assert:"+label, false)
}

func (in *Interp) assume(c *Term, label string, count bool) {
	if c.IsTrue() {
		return
	}
	if c.IsFalse() {
		if count {
			in.res.Assumes[label]++
		}
		in.abort("infeasible", "assumption %s false", label)
	}
	in.syncPC()
	if in.dpos < len(in.prefix) {
		// replaying: feasibility was established when the prefix was created
		in.addPC(c)
		return
	}
	r := in.sol.Check(c, false)
	if r == RUnsat {
		if count {
			in.res.Assumes[label]++
		}
		in.abort("infeasible", "assumption %s infeasible", label)
	}
	in.addPC(c)
}

func (in *Interp) cover(c *Term, label string) {
	in.res.CoverSeen[label] = true
	if in.res.Covers[label] {
		return
	}
	if c.IsTrue() {
		in.res.Covers[label] = true
		return
	}
	if c.IsFalse() {
		return
	}
	in.syncPC()
	if in.sol.Check(c, false) == RSat {
		in.res.Covers[label] = true
	}
}

// ---- running a path ----

func (in *Interp) resetPath(prefix []Decision) {
	in.globals = map[*ssa.Global]*Value{}
	in.pkgInit = map[*ssa.Package]int{}
	in.pc = in.pc[:0]
	in.pcSent = 0
	in.prefix = prefix
	in.trace = nil
	in.dpos = 0
	in.newWork = nil
	in.steps = 0
	in.depth = 0
	in.inputs = nil
	in.inputSeq = map[string]int{}
	in.res = newPathResult()
	in.hashLen = 0
	in.hashApps = 0
	in.onBlocked = nil
	in.mutexes = map[*Value]*mutexState{}
	in.watch = map[*Value]*watchInfo{}
	in.scratch = map[string]Value{}
	in.callStack = nil
	in.digestInputs = nil
}

func (in *Interp) runPath(entry *ssa.Function, prefix []Decision) (res *PathResult, work [][]Decision) {
	in.resetPath(prefix)
	in.sol.BeginPath()
	defer in.sol.EndPath()
	res = in.res
	finish := func(r interface{}) {
		switch p := r.(type) {
		case nil:
			res.Status = "ok"
		case pathAbort:
			switch p.kind {
			case "infeasible", "done":
				res.Status = p.kind
				res.Detail = p.detail
			case "blocked":
				res.Status = "blocked"
				res.Detail = p.detail
			default:
				res.Status = p.kind
				res.Detail = p.detail
				res.Inconclusive = append(res.Inconclusive, p.kind+": "+p.detail)
			}
		case targetPanic:
			res.Status = "panic"
			res.Detail = p.msg + " at " + p.pos
			// an uncaught panic of the code under test is a violation by default
			in.syncPC()
			res.addViolation(in, "uncaught-panic@"+p.pos, p.msg+" at "+p.pos, in.modelFor(nil))
		default:
			res.Status = "engine-error"
			res.Detail = fmt.Sprintf("%v\n%s", r, debug.Stack())
			res.Inconclusive = append(res.Inconclusive, "engine-error: "+fmt.Sprint(r))
			if os.Getenv("VERIF_DEBUG") != "" {
				fmt.Fprintln(os.Stderr, res.Detail)
			}
		}
	}
	func() {
		defer func() {
			r := recover()
			finish(r)
		}()
		in.ensureInit(entry.Pkg)
		in.callSSA(nil, entry.Pos(), entry, nil, nil)
	}()
	if res.Status == "blocked" && len(in.onBlocked) > 0 {
		cbs := in.onBlocked
		in.onBlocked = nil
		func() {
			defer func() {
				r := recover()
				if r != nil {
					finish(r)
				} else {
					res.Status = "ok"
				}
			}()
			in.callStack = nil
			in.depth = 0
			for _, cb := range cbs {
				in.call(nil, entry.Pos(), cb, nil)
			}
		}()
	}
	// validation vectors: every worker offers the models of its 1st, 2nd, 4th, 8th, … completed
	// path; Explore keeps a sample spread over the whole exploration (not just its first paths)
	if res.Status == "ok" && in.cfg.Concrete == nil && in.cfg.SampleModels > 0 && len(in.inputs)+len(in.digestInputs) > 0 {
		in.sampled++
		if in.sampled&(in.sampled-1) == 0 {
			func() {
				defer func() { recover() }()
				in.syncPC()
				res.ModelVector = in.modelFor(nil)
			}()
		}
	}
	res.Steps = in.steps
	res.HashApps = in.hashApps
	if len(in.pc) > 0 {
		var sb strings.Builder
		for i, c := range in.pc {
			if i >= 4 {
				fmt.Fprintf(&sb, " ∧ …(%d more)", len(in.pc)-i)
				break
			}
			if i > 0 {
				sb.WriteString(" ∧ ")
			}
			sb.WriteString(c.str(4))
		}
		res.Sample = sb.String()
	}
	return res, in.newWork
}

// ---- exploration driver ----

type Summary struct {
	Paths         int
	ByStatus      map[string]int
	Violations    []*Violation
	AssertsSym    int
	AssertsConc   int
	Covers        map[string]bool
	CoverSeen     map[string]bool
	Reaches       map[string]bool
	Assumes       map[string]int
	Bounds        map[string]string
	Forks         int
	Steps         int64
	Inconclusive  map[string]int
	Samples       []string
	Queries       int
	QSat          int
	QUnsat        int
	QUnknown      int
	QErrors       int
	SolverTime    time.Duration
	Wall          time.Duration
	Functions     map[string]int64
	Stubs         map[string]int
	HashApps      int
	Pending       int
	MaxStepsSeen  int64
	Traces        []string
	AllViolations int
	Truncated     string
	ModelVectors  [][]InputValue
}

func Explore(prog *ssa.Program, entry *ssa.Function, cfg *Config) *Summary {
	sum := &Summary{ByStatus: map[string]int{}, Covers: map[string]bool{}, CoverSeen: map[string]bool{}, Reaches: map[string]bool{}, Assumes: map[string]int{}, Bounds: map[string]string{}, Inconclusive: map[string]int{}, Functions: map[string]int64{}, Stubs: map[string]int{}}
	start := time.Now()
	var mu sync.Mutex
	cond := sync.NewCond(&mu)
	queue := [][]Decision{nil}
	active := 0
	stop := false
	violLabels := map[string]bool{}
	firstViolationAt := 0

	worker := func(id int) {
		tt := NewTermTable()
		sol, err := NewSolver(cfg.Solver, tt, cfg.SolverTimeoutMS)
		if err != nil {
			fmt.Fprintln(os.Stderr, "cannot start solver:", err)
			os.Exit(3)
		}
		if cfg.SolverLog != "" && id == 0 {
			f, _ := os.Create(cfg.SolverLog)
			sol.log = f
		}
		in := &Interp{prog: prog, cfg: cfg, tt: tt, sol: sol, tracing: cfg.Trace, fnCount: map[*ssa.Function]int64{}}
		if rp := prog.ImportedPackage("runtime"); rp != nil {
			if ty := rp.Type("errorString"); ty != nil {
				in.runtimeErrT = ty.Object().Type()
			}
		}
		sol.OnDefine = in.hashAxioms
		defer sol.Close()
		paths := 0
		for {
			mu.Lock()
			for len(queue) == 0 && active > 0 && !stop {
				cond.Wait()
			}
			if stop || (len(queue) == 0 && active == 0) {
				mu.Unlock()
				cond.Broadcast()
				break
			}
			// LIFO: depth-first keeps the queue small
			item := queue[len(queue)-1]
			queue = queue[:len(queue)-1]
			active++
			mu.Unlock()

			res, work := in.runPath(entry, item)
			paths++
			// periodically recycle the term table to bound memory
			if paths%200 == 0 && len(tt.tab) > 2_000_000 {
				sol.Close()
				tt = NewTermTable()
				sol, _ = NewSolver(cfg.Solver, tt, cfg.SolverTimeoutMS)
				in.tt = tt
				in.sol = sol
				sol.OnDefine = in.hashAxioms
			}

			mu.Lock()
			active--
			queue = append(queue, work...)
			sum.Paths++
			sum.ByStatus[res.Status]++
			for _, v := range res.Violations {
				if !violLabels[v.Label] {
					sum.Violations = append(sum.Violations, v)
					violLabels[v.Label] = true
				} else {
					for _, first := range sum.Violations {
						if first.Label == v.Label && len(first.Alternates) < 40 {
							first.Alternates = append(first.Alternates, v.Inputs)
						}
					}
				}
			}
			sum.AssertsSym += res.AssertsSym
			sum.AllViolations += len(res.Violations)
			if res.ModelVector != nil && len(sum.ModelVectors) < 4096 {
				sum.ModelVectors = append(sum.ModelVectors, res.ModelVector)
			}
			if cfg.Concrete != nil {
				sum.Traces = append(sum.Traces, res.Traces...)
			}
			sum.AssertsConc += res.AssertsConc
			for k := range res.Covers {
				sum.Covers[k] = true
			}
			for k := range res.CoverSeen {
				sum.CoverSeen[k] = true
			}
			for k := range res.Reaches {
				sum.Reaches[k] = true
			}
			for k, v := range res.Assumes {
				sum.Assumes[k] += v
			}
			for k, v := range res.Bounds {
				sum.Bounds[k] = v
			}
			for k, v := range res.Stubs {
				sum.Stubs[k] += v
			}
			sum.Forks += res.Forks
			sum.Steps += res.Steps
			sum.HashApps += res.HashApps
			if res.Steps > sum.MaxStepsSeen {
				sum.MaxStepsSeen = res.Steps
			}
			for _, inc := range res.Inconclusive {
				sum.Inconclusive[inc]++
			}
			if res.Sample != "" && len(sum.Samples) < 5 {
				sum.Samples = append(sum.Samples, res.Sample)
			}
			if cfg.StopOnViolation && len(sum.Violations) > 0 {
				stop = true
			}
			if len(sum.Violations) > 0 && firstViolationAt == 0 {
				firstViolationAt = sum.Paths
			}
			if firstViolationAt > 0 && cfg.AfterViolation > 0 && sum.Paths-firstViolationAt >= cfg.AfterViolation && len(queue) > 0 {
				// a counterexample is in hand: do not sink the whole budget into the rest of the space
				stop = true
				sum.Truncated = fmt.Sprintf("exploration stopped %d paths after the first counterexample (%d work items pending)", cfg.AfterViolation, len(queue))
			}
			if cfg.MaxPaths > 0 && sum.Paths >= cfg.MaxPaths && len(queue) > 0 {
				stop = true
				sum.Inconclusive[fmt.Sprintf("path budget %d exhausted", cfg.MaxPaths)]++
			}
			if cfg.TimeBudget > 0 && time.Since(start) > cfg.TimeBudget && len(queue) > 0 {
				stop = true
				sum.Inconclusive[fmt.Sprintf("time budget %v exhausted", cfg.TimeBudget)]++
			}
			if stop {
				sum.Pending = len(queue)
			}
			mu.Unlock()
			cond.Broadcast()
		}
		mu.Lock()
		sum.Queries += in.sol.Queries
		sum.QSat += in.sol.Sat
		sum.QUnsat += in.sol.Unsat
		sum.QUnknown += in.sol.Unknown
		sum.QErrors += in.sol.Errors
		sum.SolverTime += in.sol.SolveTime
		for f, n := range in.fnCount {
			name := f.String()
			if strings.Contains(name, "github.com/bbva/qed") || strings.Contains(name, "github.com/google/btree") {
				sum.Functions[name] += n
			}
		}
		mu.Unlock()
	}
	var wg sync.WaitGroup
	for i := 0; i < cfg.Workers; i++ {
		wg.Add(1)
		go func(id int) {
			defer wg.Done()
			worker(id)
		}(i)
	}
	wg.Wait()
	sum.Wall = time.Since(start)
	sort.Slice(sum.Violations, func(i, j int) bool { return sum.Violations[i].Label < sum.Violations[j].Label })
	if n := len(sum.ModelVectors); n > cfg.SampleModels && cfg.SampleModels > 0 {
		// evenly spaced over the candidates, the last one included (the deepest paths finish last)
		var pick [][]InputValue
		for i := 0; i < cfg.SampleModels; i++ {
			pick = append(pick, sum.ModelVectors[(i+1)*n/cfg.SampleModels-1])
		}
		sum.ModelVectors = pick
	}
	return sum
}
