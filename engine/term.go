package main

// Hash-consed SMT terms with constant folding. All Go integers are bit-vectors
// of their machine width with wrap-around semantics; booleans are Bool; hash
// outputs are values of the uninterpreted sort D.

import (
	"fmt"
	"math/bits"
	"strconv"
	"strings"
)

type SortKind uint8

const (
	SBool SortKind = iota
	SBV
	SD // uninterpreted digest sort
)

type Sort struct {
	K SortKind
	W int // width for SBV
}

func (s Sort) String() string {
	switch s.K {
	case SBool:
		return "Bool"
	case SBV:
		return fmt.Sprintf("(_ BitVec %d)", s.W)
	default:
		return "D"
	}
}

var BoolSort = Sort{SBool, 0}
var DSort = Sort{SD, 0}

func BV(w int) Sort { return Sort{SBV, w} }

type Op uint8

const (
	OConst Op = iota
	OVar
	ONot
	OAnd
	OOr
	OIte
	OEq
	OAdd
	OSub
	OMul
	OUDiv
	OURem
	OSDiv
	OSRem
	OBAnd
	OBOr
	OBXor
	OBNot
	ONeg
	OShl
	OLshr
	OAshr
	OUlt
	OUle
	OSlt
	OSle
	OExtract
	OZext
	OSext
	OConcat
	OApp // uninterpreted function application; name in Name
)

var opNames = map[Op]string{
	ONot: "not", OAnd: "and", OOr: "or", OIte: "ite", OEq: "=",
	OAdd: "bvadd", OSub: "bvsub", OMul: "bvmul", OUDiv: "bvudiv", OURem: "bvurem",
	OSDiv: "bvsdiv", OSRem: "bvsrem", OBAnd: "bvand", OBOr: "bvor", OBXor: "bvxor",
	OBNot: "bvnot", ONeg: "bvneg", OShl: "bvshl", OLshr: "bvlshr", OAshr: "bvashr",
	OUlt: "bvult", OUle: "bvule", OSlt: "bvslt", OSle: "bvsle", OConcat: "concat",
}

type Term struct {
	ID   int
	Op   Op
	S    Sort
	Args []*Term
	Val  uint64 // OConst (Bool: 0/1; BV: value masked to width, width<=64)
	Name string // OVar, OApp
	A, B int    // OExtract hi,lo; OZext/OSext extra bits
}

func (t *Term) IsConst() bool { return t.Op == OConst }
func (t *Term) IsTrue() bool  { return t.Op == OConst && t.S.K == SBool && t.Val == 1 }
func (t *Term) IsFalse() bool { return t.Op == OConst && t.S.K == SBool && t.Val == 0 }

// TermTable is a per-worker hash-consing table.
type TermTable struct {
	tab     map[string]*Term
	consts  map[[2]uint64]*Term
	nextID  int
	True    *Term
	False   *Term
	byteC   [256]*Term
	UFDecls map[string]string // name -> declaration text
	ufOrder []string
	VarDecl map[string]Sort
}

func NewTermTable() *TermTable {
	tt := &TermTable{tab: map[string]*Term{}, consts: map[[2]uint64]*Term{}, UFDecls: map[string]string{}, VarDecl: map[string]Sort{}}
	tt.False = tt.mk(&Term{Op: OConst, S: BoolSort, Val: 0})
	tt.True = tt.mk(&Term{Op: OConst, S: BoolSort, Val: 1})
	for i := 0; i < 256; i++ {
		tt.byteC[i] = tt.Const(8, uint64(i))
	}
	return tt
}

func (tt *TermTable) key(t *Term) string {
	buf := make([]byte, 0, 48)
	buf = strconv.AppendInt(buf, int64(t.Op), 10)
	buf = append(buf, '/')
	buf = strconv.AppendInt(buf, int64(t.S.K), 10)
	buf = append(buf, '/')
	buf = strconv.AppendInt(buf, int64(t.S.W), 10)
	buf = append(buf, '/')
	buf = strconv.AppendUint(buf, t.Val, 10)
	buf = append(buf, '/')
	buf = strconv.AppendInt(buf, int64(t.A), 10)
	buf = append(buf, '/')
	buf = strconv.AppendInt(buf, int64(t.B), 10)
	buf = append(buf, '/')
	buf = append(buf, t.Name...)
	for _, a := range t.Args {
		buf = append(buf, ',')
		buf = strconv.AppendInt(buf, int64(a.ID), 10)
	}
	return string(buf)
}

func (tt *TermTable) mk(t *Term) *Term {
	k := tt.key(t)
	if e, ok := tt.tab[k]; ok {
		return e
	}
	tt.nextID++
	t.ID = tt.nextID
	tt.tab[k] = t
	return t
}

func mask(w int) uint64 {
	if w >= 64 {
		return ^uint64(0)
	}
	return (uint64(1) << uint(w)) - 1
}

func (tt *TermTable) Const(w int, v uint64) *Term {
	if w > 64 {
		panic("Const: width > 64")
	}
	v &= mask(w)
	if w == 8 && tt.byteC[v] != nil {
		return tt.byteC[v]
	}
	k := [2]uint64{uint64(w), v}
	if c, ok := tt.consts[k]; ok {
		return c
	}
	tt.nextID++
	c := &Term{ID: tt.nextID, Op: OConst, S: BV(w), Val: v}
	tt.consts[k] = c
	return c
}

func (tt *TermTable) Bool(b bool) *Term {
	if b {
		return tt.True
	}
	return tt.False
}

func (tt *TermTable) Var(name string, s Sort) *Term {
	if old, ok := tt.VarDecl[name]; ok && old != s {
		panic("Var redeclared with different sort: " + name)
	}
	tt.VarDecl[name] = s
	return tt.mk(&Term{Op: OVar, S: s, Name: name})
}

func sext64(v uint64, w int) int64 {
	if w >= 64 {
		return int64(v)
	}
	sh := uint(64 - w)
	return int64(v<<sh) >> sh
}

func (tt *TermTable) Not(a *Term) *Term {
	if a.IsConst() {
		return tt.Bool(a.Val == 0)
	}
	if a.Op == ONot {
		return a.Args[0]
	}
	return tt.mk(&Term{Op: ONot, S: BoolSort, Args: []*Term{a}})
}

func (tt *TermTable) And(a, b *Term) *Term {
	if a.IsFalse() || b.IsFalse() {
		return tt.False
	}
	if a.IsTrue() {
		return b
	}
	if b.IsTrue() {
		return a
	}
	if a == b {
		return a
	}
	if a.ID > b.ID {
		a, b = b, a
	}
	return tt.mk(&Term{Op: OAnd, S: BoolSort, Args: []*Term{a, b}})
}

func (tt *TermTable) Or(a, b *Term) *Term {
	if a.IsTrue() || b.IsTrue() {
		return tt.True
	}
	if a.IsFalse() {
		return b
	}
	if b.IsFalse() {
		return a
	}
	if a == b {
		return a
	}
	if a.ID > b.ID {
		a, b = b, a
	}
	return tt.mk(&Term{Op: OOr, S: BoolSort, Args: []*Term{a, b}})
}

func (tt *TermTable) Ite(c, a, b *Term) *Term {
	if c.IsTrue() {
		return a
	}
	if c.IsFalse() {
		return b
	}
	if a == b {
		return a
	}
	if a.S != b.S {
		panic(fmt.Sprintf("Ite sort mismatch %v %v", a.S, b.S))
	}
	if a.S.K == SBool {
		if a.IsTrue() && b.IsFalse() {
			return c
		}
		if a.IsFalse() && b.IsTrue() {
			return tt.Not(c)
		}
	}
	return tt.mk(&Term{Op: OIte, S: a.S, Args: []*Term{c, a, b}})
}

func (tt *TermTable) Eq(a, b *Term) *Term {
	if a == b {
		return tt.True
	}
	if a.S != b.S {
		panic(fmt.Sprintf("Eq sort mismatch %v %v", a.S, b.S))
	}
	if a.IsConst() && b.IsConst() {
		return tt.Bool(a.Val == b.Val)
	}
	if a.S.K == SBool {
		if a.IsConst() {
			a, b = b, a
		}
		if b.IsTrue() {
			return a
		}
		if b.IsFalse() {
			return tt.Not(a)
		}
	}
	// zext(x) == const  -> x == const' (or false)
	if a.IsConst() {
		a, b = b, a
	}
	if b.IsConst() && a.Op == OZext {
		inner := a.Args[0]
		if b.Val&^mask(inner.S.W) != 0 {
			return tt.False
		}
		return tt.Eq(inner, tt.Const(inner.S.W, b.Val))
	}
	if b.IsConst() && a.Op == OIte && a.Args[1].IsConst() && a.Args[2].IsConst() {
		// ite(c, k1, k2) == k
		t1 := a.Args[1].Val == b.Val
		t2 := a.Args[2].Val == b.Val
		switch {
		case t1 && t2:
			return tt.True
		case t1:
			return a.Args[0]
		case t2:
			return tt.Not(a.Args[0])
		default:
			return tt.False
		}
	}
	if a.ID > b.ID {
		a, b = b, a
	}
	return tt.mk(&Term{Op: OEq, S: BoolSort, Args: []*Term{a, b}})
}

// Bin builds a binary bit-vector operation with folding.
func (tt *TermTable) Bin(op Op, a, b *Term) *Term {
	if a.S != b.S || a.S.K != SBV {
		panic(fmt.Sprintf("Bin %v sort mismatch %v %v", opNames[op], a.S, b.S))
	}
	w := a.S.W
	if a.IsConst() && b.IsConst() && w <= 64 {
		x, y := a.Val, b.Val
		var r uint64
		ok := true
		switch op {
		case OAdd:
			r = x + y
		case OSub:
			r = x - y
		case OMul:
			r = x * y
		case OUDiv:
			if y == 0 {
				r = mask(w)
			} else {
				r = x / y
			}
		case OURem:
			if y == 0 {
				r = x
			} else {
				r = x % y
			}
		case OSDiv:
			sx, sy := sext64(x, w), sext64(y, w)
			if sy == 0 {
				if sx < 0 {
					r = 1
				} else {
					r = mask(w)
				}
			} else if sy == -1 {
				r = uint64(-sx)
			} else {
				r = uint64(sx / sy)
			}
		case OSRem:
			sx, sy := sext64(x, w), sext64(y, w)
			if sy == 0 {
				r = x
			} else if sy == -1 {
				r = 0
			} else {
				r = uint64(sx % sy)
			}
		case OBAnd:
			r = x & y
		case OBOr:
			r = x | y
		case OBXor:
			r = x ^ y
		case OShl:
			if y >= uint64(w) {
				r = 0
			} else {
				r = x << y
			}
		case OLshr:
			if y >= uint64(w) {
				r = 0
			} else {
				r = x >> y
			}
		case OAshr:
			sx := sext64(x, w)
			if y >= uint64(w) {
				if sx < 0 {
					r = mask(w)
				} else {
					r = 0
				}
			} else {
				r = uint64(sx >> y)
			}
		default:
			ok = false
		}
		if ok {
			return tt.Const(w, r)
		}
	}
	// light algebraic simplification
	switch op {
	case OAdd, OBOr, OBXor:
		if a.IsConst() && a.Val == 0 {
			return b
		}
		if b.IsConst() && b.Val == 0 {
			return a
		}
	case OSub, OShl, OLshr, OAshr:
		if b.IsConst() && b.Val == 0 {
			return a
		}
	case OBAnd:
		if (a.IsConst() && a.Val == 0) || (b.IsConst() && b.Val == 0) {
			return tt.Const(w, 0)
		}
		if a.IsConst() && a.Val == mask(w) {
			return b
		}
		if b.IsConst() && b.Val == mask(w) {
			return a
		}
		if a == b {
			return a
		}
	case OMul:
		if (a.IsConst() && a.Val == 0) || (b.IsConst() && b.Val == 0) {
			return tt.Const(w, 0)
		}
		if a.IsConst() && a.Val == 1 {
			return b
		}
		if b.IsConst() && b.Val == 1 {
			return a
		}
	}
	if op == OBOr && a == b {
		return a
	}
	if op == OBXor && a == b {
		return tt.Const(w, 0)
	}
	if op == OSub && a == b {
		return tt.Const(w, 0)
	}
	// shifts by constants of a zero-extended / byte value: keep as is.
	if (op == OLshr) && b.IsConst() && w <= 64 {
		// lshr(x, k) where the result is later truncated is common; leave to extract rules.
		if b.Val >= uint64(w) {
			return tt.Const(w, 0)
		}
	}
	if op == OShl && b.IsConst() && b.Val >= uint64(w) {
		return tt.Const(w, 0)
	}
	switch op {
	case OAdd, OMul, OBAnd, OBOr, OBXor:
		if a.ID > b.ID {
			a, b = b, a
		}
	}
	return tt.mk(&Term{Op: op, S: a.S, Args: []*Term{a, b}})
}

func (tt *TermTable) Cmp(op Op, a, b *Term) *Term {
	if a.S != b.S || a.S.K != SBV {
		panic(fmt.Sprintf("Cmp %v sort mismatch %v %v", opNames[op], a.S, b.S))
	}
	w := a.S.W
	if a.IsConst() && b.IsConst() {
		switch op {
		case OUlt:
			return tt.Bool(a.Val < b.Val)
		case OUle:
			return tt.Bool(a.Val <= b.Val)
		case OSlt:
			return tt.Bool(sext64(a.Val, w) < sext64(b.Val, w))
		case OSle:
			return tt.Bool(sext64(a.Val, w) <= sext64(b.Val, w))
		}
	}
	if a == b {
		return tt.Bool(op == OUle || op == OSle)
	}
	// comparison of a constant with an ite-tree of constants (e.g. the -1/0/1 of a
	// byte-string comparison): push the comparison into the leaves
	if a.IsConst() && iteOfConsts(b, 4) {
		return tt.mapIte(b, func(leaf *Term) *Term { return tt.Cmp(op, a, leaf) })
	}
	if b.IsConst() && iteOfConsts(a, 4) {
		return tt.mapIte(a, func(leaf *Term) *Term { return tt.Cmp(op, leaf, b) })
	}
	if op == OUlt && b.IsConst() && b.Val == 0 {
		return tt.False
	}
	if op == OUle && a.IsConst() && a.Val == 0 {
		return tt.True
	}
	return tt.mk(&Term{Op: op, S: BoolSort, Args: []*Term{a, b}})
}

func iteOfConsts(t *Term, depth int) bool {
	if t.Op == OConst {
		return true
	}
	if t.Op != OIte || depth == 0 {
		return false
	}
	return iteOfConsts(t.Args[1], depth-1) && iteOfConsts(t.Args[2], depth-1)
}

func (tt *TermTable) mapIte(t *Term, f func(*Term) *Term) *Term {
	if t.Op == OConst {
		return f(t)
	}
	return tt.Ite(t.Args[0], tt.mapIte(t.Args[1], f), tt.mapIte(t.Args[2], f))
}

func (tt *TermTable) BNot(a *Term) *Term {
	if a.IsConst() {
		return tt.Const(a.S.W, ^a.Val)
	}
	if a.Op == OBNot {
		return a.Args[0]
	}
	return tt.mk(&Term{Op: OBNot, S: a.S, Args: []*Term{a}})
}

func (tt *TermTable) Neg(a *Term) *Term {
	if a.IsConst() {
		return tt.Const(a.S.W, -a.Val)
	}
	return tt.mk(&Term{Op: ONeg, S: a.S, Args: []*Term{a}})
}

func (tt *TermTable) Extract(a *Term, hi, lo int) *Term { return tt.extractD(a, hi, lo, 10) }

func (tt *TermTable) extractD(a *Term, hi, lo int, depth int) *Term {
	w := hi - lo + 1
	if lo == 0 && w == a.S.W {
		return a
	}
	if a.IsConst() && a.S.W <= 64 {
		return tt.Const(w, a.Val>>uint(lo))
	}
	switch a.Op {
	case OZext:
		in := a.Args[0]
		if hi < in.S.W {
			return tt.Extract(in, hi, lo)
		}
		if lo >= in.S.W {
			return tt.Const(w, 0)
		}
	case OSext:
		in := a.Args[0]
		if hi < in.S.W {
			return tt.Extract(in, hi, lo)
		}
	case OExtract:
		return tt.Extract(a.Args[0], a.B+hi, a.B+lo)
	case OConcat:
		// args[0] is the most significant part
		lowW := a.Args[1].S.W
		if hi < lowW {
			return tt.Extract(a.Args[1], hi, lo)
		}
		if lo >= lowW {
			return tt.Extract(a.Args[0], hi-lowW, lo-lowW)
		}
	case OLshr:
		if a.Args[1].IsConst() {
			k := int(a.Args[1].Val)
			if hi+k < a.S.W {
				return tt.Extract(a.Args[0], hi+k, lo+k)
			}
		}
	case OShl:
		if a.Args[1].IsConst() {
			k := int(a.Args[1].Val)
			if lo >= k {
				return tt.Extract(a.Args[0], hi-k, lo-k)
			}
			if hi < k {
				return tt.Const(w, 0)
			}
		}
	case OBOr, OBAnd, OBXor:
		// distribute over bitwise ops (bounded depth: walks the DAG as a tree)
		if depth > 0 {
			l := tt.extractD(a.Args[0], hi, lo, depth-1)
			r := tt.extractD(a.Args[1], hi, lo, depth-1)
			return tt.Bin(a.Op, l, r)
		}
	case OIte:
		if a.Args[1].IsConst() && a.Args[2].IsConst() {
			return tt.Ite(a.Args[0], tt.Extract(a.Args[1], hi, lo), tt.Extract(a.Args[2], hi, lo))
		}
	}
	return tt.mk(&Term{Op: OExtract, S: BV(w), Args: []*Term{a}, A: hi, B: lo})
}

func (tt *TermTable) Zext(a *Term, to int) *Term {
	if to == a.S.W {
		return a
	}
	if to < a.S.W {
		return tt.Extract(a, to-1, 0)
	}
	if a.IsConst() {
		return tt.Const(to, a.Val)
	}
	if a.Op == OZext {
		return tt.Zext(a.Args[0], to)
	}
	return tt.mk(&Term{Op: OZext, S: BV(to), Args: []*Term{a}, A: to - a.S.W})
}

func (tt *TermTable) Sext(a *Term, to int) *Term {
	if to == a.S.W {
		return a
	}
	if to < a.S.W {
		return tt.Extract(a, to-1, 0)
	}
	if a.IsConst() {
		return tt.Const(to, uint64(sext64(a.Val, a.S.W)))
	}
	return tt.mk(&Term{Op: OSext, S: BV(to), Args: []*Term{a}, A: to - a.S.W})
}

// Concat: a is the most significant part.
func (tt *TermTable) Concat(a, b *Term) *Term {
	w := a.S.W + b.S.W
	if a.IsConst() && b.IsConst() && w <= 64 {
		return tt.Const(w, a.Val<<uint(b.S.W)|b.Val)
	}
	// concat(extract(x,h,m+1), extract(x,m,l)) = extract(x,h,l)
	if a.Op == OExtract && b.Op == OExtract && a.Args[0] == b.Args[0] && a.B == b.A+1 {
		return tt.Extract(a.Args[0], a.A, b.B)
	}
	if a.IsConst() && a.Val == 0 && w <= 64 {
		return tt.Zext(b, w)
	}
	return tt.mk(&Term{Op: OConcat, S: BV(w), Args: []*Term{a, b}})
}

// App builds an uninterpreted function application. decl is registered once.
func (tt *TermTable) App(name string, res Sort, args ...*Term) *Term {
	if _, ok := tt.UFDecls[name]; !ok {
		var sb strings.Builder
		fmt.Fprintf(&sb, "(declare-fun %s (", name)
		for i, a := range args {
			if i > 0 {
				sb.WriteByte(' ')
			}
			sb.WriteString(a.S.String())
		}
		fmt.Fprintf(&sb, ") %s)", res.String())
		tt.UFDecls[name] = sb.String()
		tt.ufOrder = append(tt.ufOrder, name)
	}
	return tt.mk(&Term{Op: OApp, S: res, Name: name, Args: append([]*Term(nil), args...)})
}

// ---- printing ----

func constLit(t *Term) string {
	if t.S.K == SBool {
		if t.Val == 1 {
			return "true"
		}
		return "false"
	}
	if t.S.W%4 == 0 {
		return fmt.Sprintf("#x%0*x", t.S.W/4, t.Val)
	}
	return fmt.Sprintf("#b%0*b", t.S.W, t.Val)
}

// expr prints the term with sub-terms referenced by name (tN) when they are
// non-leaf, so every definition is small.
func (t *Term) ref() string {
	switch t.Op {
	case OConst:
		return constLit(t)
	case OVar:
		return t.Name
	}
	return fmt.Sprintf("t%d", t.ID)
}

func (t *Term) body() string {
	var sb strings.Builder
	switch t.Op {
	case OConst, OVar:
		return t.ref()
	case OExtract:
		fmt.Fprintf(&sb, "((_ extract %d %d) %s)", t.A, t.B, t.Args[0].ref())
	case OZext:
		fmt.Fprintf(&sb, "((_ zero_extend %d) %s)", t.A, t.Args[0].ref())
	case OSext:
		fmt.Fprintf(&sb, "((_ sign_extend %d) %s)", t.A, t.Args[0].ref())
	case OApp:
		if len(t.Args) == 0 {
			return t.Name
		}
		sb.WriteByte('(')
		sb.WriteString(t.Name)
		for _, a := range t.Args {
			sb.WriteByte(' ')
			sb.WriteString(a.ref())
		}
		sb.WriteByte(')')
	default:
		sb.WriteByte('(')
		sb.WriteString(opNames[t.Op])
		for _, a := range t.Args {
			sb.WriteByte(' ')
			sb.WriteString(a.ref())
		}
		sb.WriteByte(')')
	}
	return sb.String()
}

// String renders a term fully inlined (for samples / debugging), depth-limited.
func (t *Term) String() string { return t.str(6) }

func (t *Term) str(d int) string {
	switch t.Op {
	case OConst, OVar:
		return t.ref()
	}
	if d == 0 {
		return "…"
	}
	var sb strings.Builder
	switch t.Op {
	case OExtract:
		fmt.Fprintf(&sb, "((_ extract %d %d) %s)", t.A, t.B, t.Args[0].str(d-1))
	case OZext:
		fmt.Fprintf(&sb, "(zext%d %s)", t.A, t.Args[0].str(d-1))
	case OSext:
		fmt.Fprintf(&sb, "(sext%d %s)", t.A, t.Args[0].str(d-1))
	default:
		sb.WriteByte('(')
		if t.Op == OApp {
			sb.WriteString(t.Name)
		} else {
			sb.WriteString(opNames[t.Op])
		}
		for _, a := range t.Args {
			sb.WriteByte(' ')
			sb.WriteString(a.str(d - 1))
		}
		sb.WriteByte(')')
	}
	return sb.String()
}

// Eval evaluates a term under a concrete assignment of variables; used for
// replays in concrete mode and for sanity checks. UF applications are not
// evaluable (ok=false).
func (t *Term) Eval(env map[string]uint64) (v uint64, ok bool) {
	switch t.Op {
	case OConst:
		return t.Val, true
	case OVar:
		v, ok = env[t.Name]
		return
	}
	return 0, false
}

func bitLen64(v uint64) int { return bits.Len64(v) }
