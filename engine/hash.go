package main

// The hash model: hash outputs are values of the uninterpreted sort D. A
// digest of L bytes occupies L byte cells holding db0(d) … db(L-1)(d).
// A hash application is H_<layout>(chunks…) where each chunk is either a full
// aligned digest run (sort D) or a maximal run of plain bytes (one wide BV).
// Collision-freedom is an explicit assumption, encoded per application by
// left-inverse functions, a layout tag and a rank (well-foundedness).

import (
	"crypto/sha256"
	"encoding/hex"
	"fmt"
	"sort"
	"strings"
)

type hashApp struct {
	t      *Term
	sig    string
	chunks []*Term
}

func (in *Interp) hashInfo() map[int]*hashApp {
	if m, ok := in.scratch["hashApps"].(map[int]*hashApp); ok {
		return m
	}
	m := map[int]*hashApp{}
	in.scratch["hashApps"] = m
	return m
}

// hashBytes builds the digest bytes of H(bs).
func (in *Interp) hashBytes(bs []*Term) []*Term {
	L := in.hashLen
	if L == 0 {
		in.unsupported("hash model used before rt.SetDigestLen")
	}
	if in.cfg.Concrete != nil {
		raw := make([]byte, len(bs))
		for i, b := range bs {
			if !b.IsConst() {
				in.unsupported("symbolic byte in concrete-mode hash")
			}
			raw[i] = byte(b.Val)
		}
		sum := sha256.Sum256(raw)
		out := make([]*Term, L)
		for k := 0; k < L; k++ {
			out[k] = in.tt.byteC[sum[k]]
		}
		in.hashApps++
		return out
	}
	var chunks []*Term
	var sig strings.Builder
	i := 0
	for i < len(bs) {
		if d := in.dRun(bs, i); d != nil {
			chunks = append(chunks, d)
			sig.WriteString("_D")
			i += L
			continue
		}
		j := i
		var acc *Term
		for j < len(bs) && in.dRun(bs, j) == nil {
			if acc == nil {
				acc = bs[j]
			} else {
				acc = in.tt.Concat(acc, bs[j])
			}
			j++
		}
		chunks = append(chunks, acc)
		fmt.Fprintf(&sig, "_P%d", j-i)
		i = j
	}
	name := "H" + sig.String()
	if len(chunks) == 0 {
		name = "H_empty"
	}
	h := in.tt.App(name, DSort, chunks...)
	info := in.hashInfo()
	if _, ok := info[h.ID]; !ok {
		info[h.ID] = &hashApp{t: h, sig: name, chunks: chunks}
		in.hashApps++
	}
	out := make([]*Term, L)
	for k := 0; k < L; k++ {
		out[k] = in.tt.App(dbName(k), BV(8), h)
	}
	return out
}

// digestBytes returns the byte cells of the digest value d.
func (in *Interp) digestBytes(d *Term) []*Term {
	out := make([]*Term, in.hashLen)
	for k := range out {
		out[k] = in.tt.App(dbName(k), BV(8), d)
	}
	return out
}

var sigIDs = map[string]int{}

func sigID(s string) int {
	// deterministic small integer per layout name
	h := sha256.Sum256([]byte(s))
	return int(h[0])<<16 | int(h[1])<<8 | int(h[2])
}

// hashAxioms is the solver's OnDefine hook: injectivity, tag and rank facts
// for every hash application when it is first sent to the solver.
func (in *Interp) hashAxioms(t *Term) []string {
	if t.Op != OApp || t.S.K != SD || !strings.HasPrefix(t.Name, "H") {
		return nil
	}
	var out []string
	in.sol.DeclareUF("tagD", "(declare-fun tagD (D) Int)")
	in.sol.DeclareUF("rankD", "(declare-fun rankD (D) Int)")
	out = append(out, fmt.Sprintf("(assert (= (tagD %s) %d))", t.ref(), sigID(t.Name)))
	for i, a := range t.Args {
		inv := fmt.Sprintf("inv%d_%s", i, t.Name)
		in.sol.DeclareUF(inv, fmt.Sprintf("(declare-fun %s (D) %s)", inv, a.S))
		out = append(out, fmt.Sprintf("(assert (= (%s %s) %s))", inv, t.ref(), a.ref()))
		if a.S.K == SD {
			out = append(out, fmt.Sprintf("(assert (< (rankD %s) (rankD %s)))", a.ref(), t.ref()))
		}
	}
	return out
}

// ---- models of digests for replay ----

func (in *Interp) extraDigestTerms(_ *Term) {}
// defineAllForModel sends every digest input and hash application of this
// path to the solver so that a model assigns them values.
func (in *Interp) defineAllForModel() {
	if len(in.digestInputs) == 0 {
		return
	}
	for _, d := range in.digestInputs {
		in.sol.define(d.T[0])
		for _, b := range in.digestBytes(d.T[0]) {
			in.sol.define(b)
		}
	}
	for _, h := range in.hashInfo() {
		in.sol.define(h.t)
		for _, c := range h.chunks {
			in.sol.define(c)
		}
	}
	// distinct free digests must differ in some byte (model quality only)
	if len(in.digestInputs) <= 24 {
		for i := 0; i < len(in.digestInputs); i++ {
			for j := i + 1; j < len(in.digestInputs); j++ {
				x, y := in.digestInputs[i].T[0], in.digestInputs[j].T[0]
				var sb strings.Builder
				fmt.Fprintf(&sb, "(assert (=> (not (= %s %s)) (or", x.ref(), y.ref())
				for k := 0; k < in.hashLen; k++ {
					fmt.Fprintf(&sb, " (not (= (%s %s) (%s %s)))", dbName(k), x.ref(), dbName(k), y.ref())
				}
				sb.WriteString(")))")
				in.sol.send(sb.String())
			}
		}
	}
}

// digestModel describes, after a sat check with everything defined, every
// free digest input either as a free value (with its model bytes, "x:<hex>")
// or as a reference "@h<ID>" to a hash application whose definition
// "H(arg,…)" is emitted as an extra input of kind "hdef" (arguments are
// references, free values or plain bytes "p:<hex>"), so that the native replay
// can rebuild the same values with SHA-256.
func (in *Interp) digestModel() []InputValue {
	if len(in.digestInputs) == 0 {
		return nil
	}
	info := in.hashInfo()
	var hts []*Term
	for _, h := range info {
		hts = append(hts, h.t)
	}
	sort.Slice(hts, func(i, j int) bool { return hts[i].ID < hts[j].ID })
	hvals := in.sol.GetValues(hts)
	byVal := map[string]*hashApp{}
	for i, t := range hts {
		if _, ok := byVal[hvals[i]]; !ok {
			byVal[hvals[i]] = info[t.ID]
		}
	}
	var out []InputValue
	defined := map[int]string{}
	freeByVal := map[string]string{}
	var refOf func(t *Term, depth int) string
	refOf = func(t *Term, depth int) string {
		if t.S.K != SD {
			v := in.sol.GetValues([]*Term{t})[0]
			return "p:" + bvHex(v)
		}
		v := in.sol.GetValues([]*Term{t})[0]
		if h, ok := byVal[v]; ok && depth < 2000 {
			if r, done := defined[h.t.ID]; done {
				return r
			}
			name := fmt.Sprintf("h%d", h.t.ID)
			defined[h.t.ID] = "@" + name
			var parts []string
			for _, c := range h.chunks {
				parts = append(parts, refOf(c, depth+1))
			}
			out = append(out, InputValue{Name: name, Kind: "hdef", Value: "H(" + strings.Join(parts, ",") + ")"})
			return "@" + name
		}
		if r, ok := freeByVal[v]; ok {
			return r
		}
		var sb strings.Builder
		sb.WriteString("x:")
		for _, b := range in.sol.GetValues(in.digestBytes(t)) {
			u, _ := parseBVValue(b)
			fmt.Fprintf(&sb, "%02x", u)
		}
		freeByVal[v] = sb.String()
		return sb.String()
	}
	for _, d := range in.digestInputs {
		out = append(out, InputValue{Name: d.Name, Kind: "digest", Value: refOf(d.T[0], 0)})
	}
	return out
}

func bvHex(v string) string {
	if strings.HasPrefix(v, "#x") {
		return v[2:]
	}
	if strings.HasPrefix(v, "#b") {
		bits := v[2:]
		var sb strings.Builder
		for i := 0; i+8 <= len(bits); i += 8 {
			var u uint64
			for _, c := range bits[i : i+8] {
				u = u<<1 | uint64(c-'0')
			}
			fmt.Fprintf(&sb, "%02x", u)
		}
		return sb.String()
	}
	return "??" + v
}

// evalDigestExpr evaluates "@name", "H(e1,e2,…)", "x:<hex>", "p:<hex>" exactly
// like the native rt package. lookup resolves references to other inputs.
func evalDigestExprL(e string, L int, lookup func(string) (string, bool), memo map[string][]byte) []byte {
	b, _ := parseDigestExpr(e, L, lookup, memo)
	return b
}

func evalDigestExpr(e string, L int) []byte {
	return evalDigestExprL(e, L, func(string) (string, bool) { return "", false }, map[string][]byte{})
}

func parseDigestExpr(e string, L int, lookup func(string) (string, bool), memo map[string][]byte) ([]byte, string) {
	hashParts := func(parts [][]byte) []byte {
		h := sha256.New()
		for _, p := range parts {
			h.Write(p)
		}
		return h.Sum(nil)[:L]
	}
	end := func(s string) int {
		i := 0
		for i < len(s) && s[i] != ',' && s[i] != ')' {
			i++
		}
		return i
	}
	switch {
	case strings.HasPrefix(e, "@"):
		i := end(e)
		name := e[1:i]
		if b, ok := memo[name]; ok {
			return b, e[i:]
		}
		def, ok := lookup(name)
		var b []byte
		if ok {
			b, _ = parseDigestExpr(def, L, lookup, memo)
		} else {
			s := sha256.Sum256([]byte("fresh:" + name))
			b = s[:L]
		}
		memo[name] = b
		return b, e[i:]
	case strings.HasPrefix(e, "H("):
		rest := e[2:]
		var parts [][]byte
		for {
			if strings.HasPrefix(rest, ")") {
				rest = rest[1:]
				break
			}
			var p []byte
			p, rest = parseDigestExpr(rest, L, lookup, memo)
			parts = append(parts, p)
			if strings.HasPrefix(rest, ",") {
				rest = rest[1:]
			}
			if rest == "" {
				break
			}
		}
		return hashParts(parts), rest
	case strings.HasPrefix(e, "x:"), strings.HasPrefix(e, "p:"):
		rest := e[2:]
		i := end(rest)
		b, _ := hex.DecodeString(rest[:i])
		if e[0] == 'x' {
			allZero := true
			for _, c := range b {
				if c != 0 {
					allZero = false
				}
			}
			if allZero {
				s := sha256.Sum256([]byte("fresh:" + rest[:i]))
				return s[:len(b)], rest[i:]
			}
		}
		return b, rest[i:]
	}
	i := end(e)
	s := sha256.Sum256([]byte("fresh:" + e[:i]))
	return s[:L], e[i:]
}
