package main

import (
	"encoding/json"
	"flag"
	"fmt"
	"os"
	"path/filepath"
	"runtime"
	"sort"
	"strings"
	"time"

	"golang.org/x/tools/go/packages"
	"golang.org/x/tools/go/ssa"
	"golang.org/x/tools/go/ssa/ssautil"
)

const repoDir = "/repo"
const modPath = "github.com/bbva/qed"

var defaultBlackhole = []string{
	"github.com/bbva/qed/log",
	"github.com/bbva/qed/metrics",
	"github.com/hashicorp/go-hclog",
	"github.com/prometheus",
	"github.com/golang/protobuf",
	"google.golang.org",
	"log",
	"net/http/pprof",
	"expvar",
}

// Package initializers are run (lazily, on first touch, once per path) only
// for these packages; globals of every other package keep their zero value
// unless the package is black-holed (then reference-like globals are Dummy).
var defaultInitAllow = []string{
	"github.com/bbva/qed", "github.com/google/btree", "github.com/pkg/errors",
	"io", "bytes", "strings", "strconv", "sort", "math", "math/bits",
	"encoding/binary", "encoding/hex", "container/list", "container/heap", "unicode/utf8",
}

// loadProgram loads the given package patterns from /repo with the overlay
// files of the harness directory mapped into the repository tree.
func loadProgram(overlayDirs map[string]string, patterns []string, tags string) (*ssa.Program, []*packages.Package, map[string]string, error) {
	overlay := map[string][]byte{}
	files := map[string]string{}
	for src, dst := range overlayDirs {
		ents, err := os.ReadDir(src)
		if err != nil {
			return nil, nil, nil, err
		}
		for _, e := range ents {
			if e.IsDir() || !strings.HasSuffix(e.Name(), ".go") {
				continue
			}
			if strings.HasSuffix(e.Name(), "_native.go") || strings.HasSuffix(e.Name(), "_test.go") {
				// still needed for type-checking natively-built parts; the engine never interprets rt bodies
			}
			b, err := os.ReadFile(filepath.Join(src, e.Name()))
			if err != nil {
				return nil, nil, nil, err
			}
			target := filepath.Join(repoDir, dst, e.Name())
			if excludedOverlay[target] {
				continue // dropped after a load error: see loadWithFallback
			}
			overlay[target] = b
			files[target] = filepath.Join(src, e.Name())
		}
	}
	env := append(os.Environ(), "GOFLAGS=-mod=mod", "GOPROXY=off", "GOSUMDB=off", "GOTOOLCHAIN=local", "CGO_ENABLED=1")
	env = append(env, shimEnv()...)
	cfg := &packages.Config{
		Mode:       packages.LoadAllSyntax,
		Dir:        repoDir,
		Overlay:    overlay,
		Env:        env,
		BuildFlags: []string{"-tags=" + tags},
	}
	pkgs, err := packages.Load(cfg, patterns...)
	if err != nil {
		return nil, nil, nil, err
	}
	var errs []string
	packages.Visit(pkgs, nil, func(p *packages.Package) {
		for _, e := range p.Errors {
			// errors in the cgo wrapper's C side are irrelevant to SSA of its Go callers
			errs = append(errs, p.PkgPath+": "+e.Error())
		}
	})
	hard := []string{}
	for _, e := range errs {
		if strings.Contains(e, "rocksdb") && (strings.Contains(e, "cgo") || strings.Contains(e, "C.")) {
			continue
		}
		hard = append(hard, e)
	}
	if len(hard) > 0 {
		return nil, nil, nil, fmt.Errorf("load errors:\n  %s", strings.Join(hard, "\n  "))
	}
	prog, _ := ssautil.AllPackages(pkgs, ssa.InstantiateGenerics|ssa.SanityCheckFunctions*0)
	prog.Build()
	return prog, pkgs, files, nil
}

var excludedOverlay = map[string]bool{}

// loadWithFallback loads the program; when a harness file (an overlay file named
// zz_verif_*.go or living under zzverif/) no longer type-checks against the
// current tree — e.g. an unexported function it calls changed its signature —
// that file alone is dropped and the load is retried, so that the other
// harnesses of the property still run. Dropped files are returned.
func loadWithFallback(overlayDirs map[string]string, patterns []string, tags string) (*ssa.Program, map[string]string, []string, error) {
	var dropped []string
	for attempt := 0; attempt < 6; attempt++ {
		prog, _, files, err := loadProgram(overlayDirs, patterns, tags)
		if err == nil {
			return prog, files, dropped, nil
		}
		// find harness files mentioned in the error text
		culprit := ""
		for _, line := range strings.Split(err.Error(), "\n") {
			for _, field := range strings.Fields(line) {
				if i := strings.Index(field, ".go:"); i > 0 {
					path := field[:i+3]
					if j := strings.Index(path, "/repo/"); j >= 0 {
						path = path[j:]
					}
					base := filepath.Base(path)
					if (strings.HasPrefix(base, "zz_verif_") || strings.Contains(path, "/zzverif/")) && !strings.Contains(path, "/zzverif/rt/") && !strings.Contains(path, "/zzverif/models/") && !excludedOverlay[path] {
						culprit = path
					}
				}
			}
			if culprit != "" {
				break
			}
		}
		if culprit == "" {
			return nil, nil, dropped, err
		}
		excludedOverlay[culprit] = true
		dropped = append(dropped, culprit+": "+firstLine(err.Error()))
	}
	return nil, nil, dropped, fmt.Errorf("harness does not load even after dropping %d files", len(dropped))
}

func shimEnv() []string {
	shim := "/verif/cshim"
	if _, err := os.Stat(filepath.Join(shim, "cxxwrap")); err != nil {
		return nil
	}
	return []string{
		"CXX=" + filepath.Join(shim, "cxxwrap"),
		"CGO_LDFLAGS_ALLOW=.*",
		"CGO_CFLAGS=-I" + shim,
		"CGO_CXXFLAGS=-I" + shim,
		"CGO_LDFLAGS=-L" + shim + " -lverifshim",
	}
}

func findFunc(prog *ssa.Program, pkgPath, name string) *ssa.Function {
	for _, p := range prog.AllPackages() {
		if p.Pkg.Path() == pkgPath {
			return p.Func(name)
		}
	}
	return nil
}

type RunSpec struct {
	Overlay  map[string]string `json:"overlay"`  // dir under /verif -> dir relative to /repo
	Patterns []string          `json:"patterns"` // packages to load
	Pkg      string            `json:"pkg"`      // package path of the entry
	Entry    string            `json:"entry"`    // function name
}

func main() {
	if len(os.Args) < 2 {
		fmt.Fprintln(os.Stderr, "usage: qv run|check|replay ...")
		os.Exit(2)
	}
	switch os.Args[1] {
	case "run":
		cmdRun(os.Args[2:])
	case "check":
		cmdCheck(os.Args[2:])
	case "replay":
		cmdReplay(os.Args[2:])
	case "selftest":
		cmdSelftest(os.Args[2:])
	default:
		fmt.Fprintln(os.Stderr, "unknown command", os.Args[1])
		os.Exit(2)
	}
}

func baseConfig() *Config {
	return &Config{
		Blackhole:       append([]string(nil), defaultBlackhole...),
		InitAllow:       append([]string(nil), defaultInitAllow...),
		MaxSteps:        50_000_000,
		MaxDepth:        3000,
		SolverTimeoutMS: 30000,
		Workers:         runtime.NumCPU(),
		Solver:          "z3",
		SolverLog:       os.Getenv("VERIF_SOLVERLOG"),
	}
}

// cmdRun: low-level entry used during development and by check.
func cmdRun(args []string) {
	fs := flag.NewFlagSet("run", flag.ExitOnError)
	dir := fs.String("dir", "", "harness directory (overlaid)")
	dst := fs.String("dst", "", "destination directory relative to /repo")
	pkg := fs.String("pkg", "", "package path of entry")
	entry := fs.String("entry", "", "entry function")
	workers := fs.Int("workers", runtime.NumCPU(), "workers")
	trace := fs.Bool("trace", false, "trace calls")
	maxPaths := fs.Int("max-paths", 0, "max paths")
	slog := fs.String("solver-log", "", "log solver input of worker 0")
	solver := fs.String("solver", "z3", "solver")
	paramS := fs.String("params", "", "N=2,P=1")
	fs.Parse(args)
	params := map[string]int{}
	for _, kv := range strings.Split(*paramS, ",") {
		if i := strings.Index(kv, "="); i > 0 {
			var v int
			fmt.Sscanf(kv[i+1:], "%d", &v)
			params[kv[:i]] = v
		}
	}
	overlay := map[string]string{"/verif/rt": "zzverif/rt", "/verif/models": "zzverif/models"}
	if *dir != "" {
		overlay[*dir] = *dst
	}
	t0 := time.Now()
	prog, _, _, err := loadProgram(overlay, []string{*pkg}, "verif")
	if err != nil {
		fmt.Fprintln(os.Stderr, err)
		os.Exit(3)
	}
	fmt.Fprintf(os.Stderr, "loaded in %v\n", time.Since(t0))
	fn := findFunc(prog, *pkg, *entry)
	if fn == nil {
		fmt.Fprintf(os.Stderr, "entry %s.%s not found\n", *pkg, *entry)
		os.Exit(3)
	}
	cfg := baseConfig()
	cfg.Workers = *workers
	cfg.Trace = *trace
	cfg.MaxPaths = *maxPaths
	cfg.SolverLog = *slog
	cfg.Solver = *solver
	cfg.Params = params
	sum := Explore(prog, fn, cfg)
	printSummary(sum)
}

func printSummary(sum *Summary) {
	fmt.Printf("paths=%d status=%v forks=%d steps=%d wall=%v\n", sum.Paths, sum.ByStatus, sum.Forks, sum.Steps, sum.Wall.Round(time.Millisecond))
	fmt.Printf("asserts: symbolic-proved=%d concrete=%d  queries=%d (sat %d unsat %d unknown %d errors %d) solver=%v\n",
		sum.AssertsSym, sum.AssertsConc, sum.Queries, sum.QSat, sum.QUnsat, sum.QUnknown, sum.QErrors, sum.SolverTime.Round(time.Millisecond))
	var covs []string
	for k := range sum.CoverSeen {
		covs = append(covs, fmt.Sprintf("%s=%v", k, sum.Covers[k]))
	}
	sort.Strings(covs)
	fmt.Printf("covers: %v reaches: %d bounds: %v\n", covs, len(sum.Reaches), sum.Bounds)
	for k, n := range sum.Inconclusive {
		fmt.Printf("INCONCLUSIVE x%d: %s\n", n, firstLine(k))
	}
	for _, v := range sum.Violations {
		b, _ := json.Marshal(v)
		fmt.Printf("VIOLATION-CANDIDATE %s\n", b)
	}
}

func firstLine(s string) string {
	if i := strings.Index(s, "\n"); i >= 0 {
		lines := strings.Split(s, "\n")
		if len(lines) > 14 {
			lines = lines[:14]
		}
		return strings.Join(lines, "\n   ")
	}
	return s
}

// cmdSelftest runs the engine on the smoke harnesses: every assertion that must
// hold is discharged, and exactly the two deliberately wrong assertions are
// violated (the engine can both prove and refute; the hash model is not vacuous).
func cmdSelftest(args []string) {
	overlay := map[string]string{"/verif/rt": "zzverif/rt", "/verif/models": "zzverif/models", "/verif/harness/smoke": "zzverif/smoke"}
	pkg := "github.com/bbva/qed/zzverif/smoke"
	prog, _, _, err := loadProgram(overlay, []string{pkg}, "verif")
	if err != nil {
		fmt.Println("selftest: load failed:", err)
		os.Exit(1)
	}
	want := map[string]string{"Arith": "sum-bound-wrong", "Hash": "free-can-equal"}
	ok := true
	for entry, label := range want {
		for _, solver := range []string{"z3", "z3-new", "cvc5"} {
			cfg := baseConfig()
			cfg.Workers = 4
			cfg.Solver = solver
			sum := Explore(prog, findFunc(prog, pkg, entry), cfg)
			var got []string
			for _, v := range sum.Violations {
				got = append(got, v.Label)
			}
			good := len(got) == 1 && got[0] == label && len(sum.Inconclusive) == 0 && sum.AssertsSym > 0
			fmt.Printf("selftest %-5s %-6s paths=%d discharged=%d violated=%v inconclusive=%d : %v\n", entry, solver, sum.Paths, sum.AssertsSym, got, len(sum.Inconclusive), good)
			ok = ok && good
		}
	}
	if !ok {
		os.Exit(1)
	}
}
