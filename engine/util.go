package main

import (
	"golang.org/x/tools/go/ssa"
	"golang.org/x/tools/go/ssa/ssautil"
)

func ssautilAllFunctions(prog *ssa.Program) map[*ssa.Function]bool {
	return ssautil.AllFunctions(prog)
}
