package main

import (
	"golang.org/x/tools/go/ssa"
	"golang.org/x/tools/go/ssa/ssautil"
	"os"
)

func ssautilAllFunctions(prog *ssa.Program) map[*ssa.Function]bool {
	return ssautil.AllFunctions(prog)
}

var forkDebug = os.Getenv("VERIF_FORKPOS") != ""
