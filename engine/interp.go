package main

import (
	"fmt"
	"go/constant"
	"go/token"
	"go/types"
	"os"
	"strings"

	"golang.org/x/tools/go/ssa"
)

type deferred struct {
	fn    Value
	args  []Value
	instr *ssa.Defer
	tail  *deferred
}

type frame struct {
	in               *Interp
	caller           *frame
	fn               *ssa.Function
	block, prevBlock *ssa.BasicBlock
	env              map[ssa.Value]Value
	locals           []Value
	defers           *deferred
	result           Value
	panicking        bool
	panic            interface{}
	phitemps         []Value
}

type Input struct {
	Name string
	Kind string // "bv", "bool", "bytes", "digest", "choice"
	T    []*Term
	W    int
}

type Decision struct {
	Kind byte // 'b' branch, 'v' concrete value, 'x' exclusion list
	B    bool
	V    uint64
	Excl []uint64
}

// Interp is one worker's interpreter: own term table, own solver, own heap.
type Interp struct {
	prog *ssa.Program
	cfg  *Config
	tt   *TermTable
	sol  *Solver

	// per-path state
	globals      map[*ssa.Global]*Value
	pkgInit      map[*ssa.Package]int
	pc           []*Term
	pcSent       int
	prefix       []Decision
	trace        []Decision
	dpos         int
	newWork      [][]Decision
	steps        int64
	depth        int
	inputs       []*Input
	digestInputs []*Input
	inputSeq     map[string]int
	res          *PathResult
	hashLen      int // digest length in bytes for the hash model (0 = unset)
	hashApps     int
	onBlocked    []Value
	mutexes      map[*Value]*mutexState
	watch        map[*Value]*watchInfo
	goDepth      int
	probing      int
	recording    map[*Value][]*Value // cells written -> locks held at the first write (nil: not recording)
	scratch      map[string]Value
	curPos       token.Pos
	callStack    []*ssa.Function

	runtimeErrT types.Type
	tracing     bool
	fnCount     map[*ssa.Function]int64
	sampled     int
	fmtCaller   *frame
	fmtDepth    int
}

type probeBlocked struct{}

type mutexState struct {
	writer  bool
	readers int
}

type watchInfo struct {
	label string
	mu    *Value
}

func (in *Interp) fset() *token.FileSet { return in.prog.Fset }

func (in *Interp) posStr(p token.Pos) string {
	if p == token.NoPos {
		return "?"
	}
	ps := in.fset().Position(p)
	f := ps.Filename
	if i := strings.Index(f, "/repo/"); i >= 0 {
		f = f[i+6:]
	}
	return fmt.Sprintf("%s:%d", f, ps.Line)
}

func (in *Interp) abort(kind, format string, a ...interface{}) {
	panic(pathAbort{kind: kind, detail: fmt.Sprintf(format, a...)})
}

func (in *Interp) unsupported(format string, a ...interface{}) {
	where := ""
	if n := len(in.callStack); n > 0 {
		where = " in " + in.callStack[n-1].String() + " at " + in.posStr(in.curPos)
		for i := n - 2; i >= 0 && i >= n-7; i-- {
			where += " <- " + in.callStack[i].String()
		}
	}
	panic(pathAbort{kind: "unsupported", detail: fmt.Sprintf(format, a...) + where})
}

// throw raises a Go run-time panic in the target program.
func (in *Interp) throw(msg string) {
	var v Value
	if in.runtimeErrT != nil {
		v = Iface{T: in.runtimeErrT, V: msg}
	} else {
		v = Iface{T: types.Typ[types.String], V: msg}
	}
	panic(targetPanic{v: v, msg: "runtime error: " + msg, pos: in.posStr(in.curPos)})
}

func (fr *frame) get(key ssa.Value) Value {
	switch key := key.(type) {
	case nil:
		return nil
	case *ssa.Function:
		return key
	case *ssa.Builtin:
		return key
	case *ssa.Const:
		return fr.in.constValue(key)
	case *ssa.Global:
		return fr.in.globalAddr(key)
	}
	if r, ok := fr.env[key]; ok {
		return r
	}
	panic(fmt.Sprintf("get: no value for %T: %v in %s", key, key.Name(), fr.fn))
}

func (in *Interp) globalAddr(g *ssa.Global) *Value {
	if r, ok := in.globals[g]; ok {
		return r
	}
	// lazily create, and lazily initialise the package
	cell := new(Value)
	*cell = in.zeroGlobal(g)
	in.globals[g] = cell
	in.ensureInit(g.Pkg)
	return cell
}

func (in *Interp) zeroGlobal(g *ssa.Global) Value {
	t := deref(g.Type())
	if g.Pkg != nil && in.cfg.isBlackhole(g.Pkg.Pkg.Path()) {
		return in.dummyZero(t)
	}
	return in.zero(t)
}

func deref(t types.Type) types.Type {
	if p, ok := t.Underlying().(*types.Pointer); ok {
		return p.Elem()
	}
	panic("deref of non-pointer " + t.String())
}

// ensureInit runs the package initializer on first touch (per path).
func (in *Interp) ensureInit(p *ssa.Package) {
	if p == nil {
		return
	}
	if in.pkgInit[p] != 0 {
		return
	}
	in.pkgInit[p] = 1
	path := p.Pkg.Path()
	if in.cfg.isBlackhole(path) || in.cfg.skipInit(path) {
		in.pkgInit[p] = 2
		return
	}
	initFn := p.Func("init")
	if initFn == nil || initFn.Blocks == nil {
		in.pkgInit[p] = 2
		return
	}
	in.callSSA(nil, token.NoPos, initFn, nil, nil)
	in.pkgInit[p] = 2
}

func (in *Interp) constValue(c *ssa.Const) Value {
	t := c.Type()
	if c.Value == nil {
		return in.zero(t)
	}
	switch ut := t.Underlying().(type) {
	case *types.Basic:
		return in.constBasic(ut, c.Value)
	case *types.TypeParam:
		in.unsupported("const of type param")
	}
	in.unsupported("constValue %v : %v", c, t)
	return nil
}

func (in *Interp) constBasic(t *types.Basic, val constant.Value) Value {
	info := t.Info()
	switch {
	case info&types.IsBoolean != 0:
		return in.tt.Bool(constant.BoolVal(val))
	case info&types.IsInteger != 0:
		w := intWidth(t)
		if info&types.IsUnsigned != 0 {
			u, _ := constant.Uint64Val(constant.ToInt(val))
			return in.tt.Const(w, u)
		}
		i, ok := constant.Int64Val(constant.ToInt(val))
		if !ok {
			u, _ := constant.Uint64Val(constant.ToInt(val))
			return in.tt.Const(w, u)
		}
		return in.tt.Const(w, uint64(i))
	case info&types.IsFloat != 0:
		f, _ := constant.Float64Val(val)
		return f
	case info&types.IsString != 0:
		if val.Kind() == constant.String {
			return constant.StringVal(val)
		}
		return ""
	case t.Kind() == types.UnsafePointer, t.Kind() == types.UntypedNil:
		return (*Value)(nil)
	case info&types.IsComplex != 0:
		re, _ := constant.Float64Val(constant.Real(val))
		im, _ := constant.Float64Val(constant.Imag(val))
		return complex(re, im)
	}
	in.unsupported("constBasic %v", t)
	return nil
}

func intWidth(t *types.Basic) int {
	switch t.Kind() {
	case types.Int8, types.Uint8:
		return 8
	case types.Int16, types.Uint16:
		return 16
	case types.Int32, types.Uint32:
		return 32
	case types.Int64, types.Uint64, types.Int, types.Uint, types.Uintptr, types.UntypedInt, types.UntypedRune:
		return 64
	}
	panic("intWidth: " + t.String())
}

func isSigned(t types.Type) bool {
	b, ok := t.Underlying().(*types.Basic)
	return ok && b.Info()&types.IsInteger != 0 && b.Info()&types.IsUnsigned == 0
}

func isInteger(t types.Type) bool {
	b, ok := t.Underlying().(*types.Basic)
	return ok && b.Info()&types.IsInteger != 0
}

func (in *Interp) zero(t types.Type) Value {
	switch t := t.Underlying().(type) {
	case *types.Basic:
		info := t.Info()
		switch {
		case info&types.IsBoolean != 0:
			return in.tt.False
		case info&types.IsInteger != 0:
			return in.tt.Const(intWidth(t), 0)
		case info&types.IsFloat != 0:
			return float64(0)
		case info&types.IsComplex != 0:
			return complex(0, 0)
		case info&types.IsString != 0:
			return ""
		case t.Kind() == types.UnsafePointer:
			return (*Value)(nil)
		case t.Kind() == types.UntypedNil:
			return (*Value)(nil)
		}
		in.unsupported("zero of basic %v", t)
	case *types.Pointer:
		return (*Value)(nil)
	case *types.Array:
		a := make(Array, t.Len())
		for i := range a {
			a[i] = in.zero(t.Elem())
		}
		return a
	case *types.Struct:
		s := make(Struct, t.NumFields())
		for i := range s {
			s[i] = in.zero(t.Field(i).Type())
		}
		return s
	case *types.Tuple:
		if t.Len() == 1 {
			return in.zero(t.At(0).Type())
		}
		s := make(Tuple, t.Len())
		for i := range s {
			s[i] = in.zero(t.At(i).Type())
		}
		return s
	case *types.Chan:
		return (*Chan)(nil)
	case *types.Map:
		return (*Map)(nil)
	case *types.Signature:
		return (*ssa.Function)(nil)
	case *types.Interface:
		return Iface{}
	case *types.Slice:
		return Slice{}
	}
	in.unsupported("zero of %v", t)
	return nil
}

// dummyZero is the zero value for globals/results of black-holed packages:
// reference-like things become Dummy so that later calls are swallowed.
func (in *Interp) dummyZero(t types.Type) Value {
	switch ut := t.Underlying().(type) {
	case *types.Pointer:
		cell := new(Value)
		*cell = Dummy{t.String()}
		return cell
	case *types.Interface:
		return Iface{T: t, V: Dummy{t.String()}}
	case *types.Signature:
		return Dummy{t.String()}
	case *types.Struct:
		s := make(Struct, ut.NumFields())
		for i := range s {
			s[i] = in.dummyZero(ut.Field(i).Type())
		}
		return s
	case *types.Tuple:
		if ut.Len() == 1 {
			return in.dummyZero(ut.At(0).Type())
		}
		s := make(Tuple, ut.Len())
		for i := range s {
			s[i] = in.dummyZero(ut.At(i).Type())
		}
		return s
	}
	return in.zero(t)
}

// blackholeResult is what a swallowed call returns: zero scalars, nil errors,
// Dummy for other reference-like results.
func (in *Interp) blackholeResult(sig *types.Signature) Value {
	res := sig.Results()
	one := func(t types.Type) Value {
		if types.Identical(t, errorType) {
			return Iface{}
		}
		return in.dummyZero(t)
	}
	switch res.Len() {
	case 0:
		return nil
	case 1:
		return one(res.At(0).Type())
	}
	tup := make(Tuple, res.Len())
	for i := range tup {
		tup[i] = one(res.At(i).Type())
	}
	return tup
}

var errorType = types.Universe.Lookup("error").Type()

func (in *Interp) load(t types.Type, addr *Value) Value {
	if addr == nil {
		in.throw("invalid memory address or nil pointer dereference")
	}
	in.checkWatch(addr)
	return copyVal(*addr)
}

func (in *Interp) store(t types.Type, addr *Value, v Value) {
	if addr == nil {
		in.throw("invalid memory address or nil pointer dereference")
	}
	in.checkWatchW(addr, true)
	if in.recording != nil {
		in.recordWrite(addr)
	}
	in.storeRaw(addr, v)
}

// recordWrite notes a write to a memory cell together with the locks held (rt.SharedWrites).
func (in *Interp) recordWrite(addr *Value) {
	if _, seen := in.recording[addr]; seen {
		return
	}
	var held []*Value
	for mu, ms := range in.mutexes {
		// only an exclusive (write-mode) hold protects a write: two holders of a read lock run concurrently
		if ms.writer {
			held = append(held, mu)
		}
	}
	in.recording[addr] = held
}

func (in *Interp) storeRaw(addr *Value, v Value) {
	switch v := v.(type) {
	case Struct:
		if lhs, ok := (*addr).(Struct); ok && len(lhs) == len(v) {
			for i := range lhs {
				in.storeRaw(&lhs[i], v[i])
			}
			return
		}
		*addr = copyVal(v)
	case Array:
		if lhs, ok := (*addr).(Array); ok && len(lhs) == len(v) {
			for i := range lhs {
				in.storeRaw(&lhs[i], v[i])
			}
			return
		}
		*addr = copyVal(v)
	default:
		*addr = v
	}
}

func (in *Interp) checkWatch(addr *Value) { in.checkWatchW(addr, false) }

func (in *Interp) checkWatchW(addr *Value, write bool) {
	if len(in.watch) == 0 {
		return
	}
	if w, ok := in.watch[addr]; ok {
		ms := in.mutexes[w.mu]
		if ms == nil || (!ms.writer && ms.readers == 0) || (write && !ms.writer) {
			in.res.addViolation(in, "lockset:"+w.label, "access to guarded field without holding its lock at "+in.posStr(in.curPos), nil)
		}
	}
}

// ---- frames ----

func (fr *frame) runDefer(d *deferred) {
	var ok bool
	defer func() {
		if !ok {
			r := recover()
			if pa, isAbort := r.(pathAbort); isAbort {
				panic(pa)
			}
			fr.panicking = true
			fr.panic = r
		}
	}()
	fr.in.call(fr, d.instr.Pos(), d.fn, d.args)
	ok = true
}

func (fr *frame) runDefers() {
	for d := fr.defers; d != nil; d = d.tail {
		fr.runDefer(d)
	}
	fr.defers = nil
	if fr.panicking {
		panic(fr.panic)
	}
}

func (in *Interp) lookupMethod(typ types.Type, meth *types.Func) *ssa.Function {
	return in.prog.LookupMethod(typ, meth.Pkg(), meth.Name())
}

func (in *Interp) prepareCall(fr *frame, call *ssa.CallCommon) (fn Value, args []Value) {
	v := fr.get(call.Value)
	if call.Method == nil {
		fn = v
	} else {
		recv := v.(Iface)
		if recv.T == nil {
			in.throw("invalid memory address or nil pointer dereference (method " + call.Method.Name() + " invoked on nil interface)")
		}
		if _, isDummy := recv.V.(Dummy); isDummy {
			fn = dummyMethod{sig: call.Method.Type().(*types.Signature), name: call.Method.Name()}
		} else if f := in.lookupMethod(recv.T, call.Method); f == nil {
			in.unsupported("method set for dynamic type %v does not contain %s", recv.T, call.Method)
		} else {
			fn = f
		}
		args = append(args, recv.V)
	}
	for _, arg := range call.Args {
		args = append(args, fr.get(arg))
	}
	return
}

type dummyMethod struct {
	sig  *types.Signature
	name string
}

func (in *Interp) call(caller *frame, callpos token.Pos, fn Value, args []Value) Value {
	switch fn := fn.(type) {
	case *ssa.Function:
		if fn == nil {
			in.throw("call of nil function")
		}
		return in.callSSA(caller, callpos, fn, args, nil)
	case *Closure:
		return in.callSSA(caller, callpos, fn.Fn, args, fn.Env)
	case *ssa.Builtin:
		return in.callBuiltin(caller, callpos, fn, args)
	case dummyMethod:
		if isFatalName(fn.name) {
			panic(targetPanic{v: Iface{T: types.Typ[types.String], V: "fatal log call " + fn.name}, msg: "process exit via " + fn.name, pos: in.posStr(callpos)})
		}
		return in.blackholeResult(fn.sig)
	case Dummy:
		return nil
	case *Value:
		if fn == nil {
			in.throw("call of nil function")
		}
	}
	in.unsupported("cannot call %T", fn)
	return nil
}

func isFatalName(n string) bool {
	return strings.HasPrefix(n, "Fatal") || strings.HasPrefix(n, "Panic")
}

func (in *Interp) callSSA(caller *frame, callpos token.Pos, fn *ssa.Function, args []Value, env []Value) Value {
	if fn.Parent() == nil {
		name := fn.String()
		if len(in.cfg.Redirects) > 0 {
			if r, ok := in.cfg.Redirects[name]; ok && r != fn {
				in.res.Stubs["redirect:"+name]++
				return in.callSSA(caller, callpos, r, args, nil)
			}
		}
		if ext, ok := intrinsics[name]; ok {
			in.curPos = callpos
			if in.tracing {
				fmt.Fprintf(os.Stderr, "%*sintrinsic %s\n", in.depth, "", name)
			}
			return ext(in, caller, fn, args)
		}
		if fn.Pkg != nil {
			path := fn.Pkg.Pkg.Path()
			if in.cfg.isBlackhole(path) {
				if isFatalName(fn.Name()) {
					panic(targetPanic{v: Iface{T: types.Typ[types.String], V: "fatal log call " + name}, msg: "process exit via " + name, pos: in.posStr(callpos)})
				}
				return in.blackholeResult(fn.Signature)
			}
		} else if fn.Signature.Recv() != nil {
			// method of a type from a black-holed package (wrapper/bound/thunk have Pkg==nil)
			if rp := recvPkg(fn.Signature.Recv().Type()); rp != "" && in.cfg.isBlackhole(rp) {
				if isFatalName(fn.Name()) {
					panic(targetPanic{v: Iface{T: types.Typ[types.String], V: "fatal log call " + name}, msg: "process exit via " + name, pos: in.posStr(callpos)})
				}
				return in.blackholeResult(fn.Signature)
			}
		}
		if fn.Blocks == nil {
			if fn.Name() == "init" && fn.Synthetic != "" {
				return nil
			}
			in.unsupported("no code for function: %s", name)
		}
		if fn.Name() == "init" && fn.Synthetic == "package initializer" && caller != nil {
			// dependency initializers are run lazily on first touch instead
			return nil
		}
		if fn.Pkg != nil && in.pkgInit[fn.Pkg] == 0 {
			in.ensureInit(fn.Pkg)
		}
	}
	if fn.TypeParams().Len() > 0 && len(fn.TypeArgs()) == 0 {
		in.unsupported("uninstantiated generic function %s", fn)
	}
	in.depth++
	if in.depth > in.cfg.MaxDepth {
		in.abort("budget", "recursion depth %d exceeded in %s", in.cfg.MaxDepth, fn)
	}
	in.callStack = append(in.callStack, fn)
	if in.fnCount != nil {
		in.fnCount[fn]++
	}
	defer func() {
		in.depth--
		in.callStack = in.callStack[:len(in.callStack)-1]
	}()
	if in.tracing {
		fmt.Fprintf(os.Stderr, "%*scall %s\n", in.depth, "", fn)
	}
	fr := &frame{in: in, caller: caller, fn: fn}
	fr.env = make(map[ssa.Value]Value, 16)
	fr.block = fn.Blocks[0]
	fr.locals = make([]Value, len(fn.Locals))
	for i, l := range fn.Locals {
		fr.locals[i] = in.zero(deref(l.Type()))
		fr.env[l] = &fr.locals[i]
	}
	for i, p := range fn.Params {
		fr.env[p] = args[i]
	}
	for i, fv := range fn.FreeVars {
		fr.env[fv] = env[i]
	}
	for fr.block != nil {
		in.runFrame(fr)
	}
	return fr.result
}

func recvPkg(t types.Type) string {
	if p, ok := t.(*types.Pointer); ok {
		t = p.Elem()
	}
	if n, ok := t.(*types.Named); ok && n.Obj().Pkg() != nil {
		return n.Obj().Pkg().Path()
	}
	return ""
}

func (in *Interp) runFrame(fr *frame) {
	defer func() {
		if fr.block == nil {
			return // normal return
		}
		r := recover()
		if pa, ok := r.(pathAbort); ok {
			panic(pa)
		}
		if _, ok := r.(targetPanic); !ok {
			// interpreter bug: propagate as is
			panic(r)
		}
		fr.panicking = true
		fr.panic = r
		fr.runDefers()
		fr.block = fr.fn.Recover
		if fr.block == nil {
			// recovered in a function without named results: return zero values
			fr.result = in.zero(fr.fn.Signature.Results())
			if fr.fn.Signature.Results().Len() == 0 {
				fr.result = nil
			}
		}
	}()
	for {
		nonPhis := in.executePhis(fr)
		for _, instr := range nonPhis {
			in.steps++
			if in.steps > in.cfg.MaxSteps {
				in.abort("budget", "instruction budget %d exceeded in %s", in.cfg.MaxSteps, fr.fn)
			}
			if p := instr.Pos(); p != token.NoPos {
				in.curPos = p
			}
			switch in.visitInstr(fr, instr) {
			case kReturn:
				return
			case kJump:
				goto nextBlock
			}
		}
	nextBlock:
	}
}

type continuation int

const (
	kNext continuation = iota
	kReturn
	kJump
)

func (in *Interp) executePhis(fr *frame) []ssa.Instruction {
	firstNonPhi := -1
	for i, instr := range fr.block.Instrs {
		if _, ok := instr.(*ssa.Phi); !ok {
			firstNonPhi = i
			break
		}
	}
	nonPhis := fr.block.Instrs[firstNonPhi:]
	if firstNonPhi > 0 {
		phis := fr.block.Instrs[:firstNonPhi]
		predIndex := -1
		for i, p := range fr.block.Preds {
			if p == fr.prevBlock {
				predIndex = i
				break
			}
		}
		fr.phitemps = fr.phitemps[:0]
		for _, phi := range phis {
			fr.phitemps = append(fr.phitemps, fr.get(phi.(*ssa.Phi).Edges[predIndex]))
		}
		for i, phi := range phis {
			fr.env[phi.(*ssa.Phi)] = fr.phitemps[i]
		}
	}
	return nonPhis
}

func (in *Interp) visitInstr(fr *frame, instr ssa.Instruction) continuation {
	switch instr := instr.(type) {
	case *ssa.DebugRef:

	case *ssa.UnOp:
		fr.env[instr] = in.unop(instr, fr.get(instr.X))

	case *ssa.BinOp:
		fr.env[instr] = in.binop(instr.Op, instr.X.Type(), fr.get(instr.X), fr.get(instr.Y), instr.Y.Type())

	case *ssa.Call:
		fn, args := in.prepareCall(fr, &instr.Call)
		fr.env[instr] = in.call(fr, instr.Pos(), fn, args)

	case *ssa.ChangeInterface:
		fr.env[instr] = fr.get(instr.X)

	case *ssa.ChangeType:
		fr.env[instr] = fr.get(instr.X)

	case *ssa.Convert:
		fr.env[instr] = in.conv(instr.Type(), instr.X.Type(), fr.get(instr.X))

	case *ssa.MultiConvert:
		fr.env[instr] = in.conv(instr.Type(), instr.X.Type(), fr.get(instr.X))

	case *ssa.SliceToArrayPointer:
		s := fr.get(instr.X).(Slice)
		n := int(deref(instr.Type()).Underlying().(*types.Array).Len())
		if s.Len < n {
			in.throw("cannot convert slice to array pointer: length too short")
		}
		if s.IsNil() {
			fr.env[instr] = (*Value)(nil)
		} else {
			arr := make(Array, n)
			for i := 0; i < n; i++ {
				arr[i] = *s.At(i)
			}
			cell := new(Value)
			*cell = arr
			fr.env[instr] = cell
		}

	case *ssa.MakeInterface:
		fr.env[instr] = Iface{T: instr.X.Type(), V: fr.get(instr.X)}

	case *ssa.Extract:
		fr.env[instr] = fr.get(instr.Tuple).(Tuple)[instr.Index]

	case *ssa.Slice:
		fr.env[instr] = in.sliceOp(instr, fr.get(instr.X), fr.get(instr.Low), fr.get(instr.High), fr.get(instr.Max))

	case *ssa.Return:
		switch len(instr.Results) {
		case 0:
		case 1:
			fr.result = fr.get(instr.Results[0])
		default:
			var res Tuple
			for _, r := range instr.Results {
				res = append(res, fr.get(r))
			}
			fr.result = res
		}
		fr.block = nil
		return kReturn

	case *ssa.RunDefers:
		fr.runDefers()

	case *ssa.Panic:
		v := fr.get(instr.X)
		panic(targetPanic{v: v, msg: in.panicString(v), pos: in.posStr(instr.Pos())})

	case *ssa.Send:
		in.chanSend(fr.get(instr.Chan).(*Chan), fr.get(instr.X))

	case *ssa.Store:
		in.store(deref(instr.Addr.Type()), fr.get(instr.Addr).(*Value), fr.get(instr.Val))

	case *ssa.If:
		succ := 1
		if in.branch(fr.get(instr.Cond).(*Term)) {
			succ = 0
		}
		fr.prevBlock, fr.block = fr.block, fr.block.Succs[succ]
		return kJump

	case *ssa.Jump:
		fr.prevBlock, fr.block = fr.block, fr.block.Succs[0]
		return kJump

	case *ssa.Defer:
		fn, args := in.prepareCall(fr, &instr.Call)
		defers := &fr.defers
		if instr.DeferStack != nil {
			if into := fr.get(instr.DeferStack); into != nil {
				in.unsupported("defer stacks (range-over-func)")
			}
		}
		*defers = &deferred{fn: fn, args: args, instr: instr, tail: *defers}

	case *ssa.Go:
		fn, args := in.prepareCall(fr, &instr.Call)
		in.goDepth++
		in.call(fr, instr.Pos(), fn, args)
		in.goDepth--

	case *ssa.MakeChan:
		n := in.concreteInt(fr.get(instr.Size).(*Term), true)
		fr.env[instr] = &Chan{cap: int(n), elemT: instr.Type().Underlying().(*types.Chan).Elem()}

	case *ssa.Alloc:
		var addr *Value
		if instr.Heap {
			addr = new(Value)
			fr.env[instr] = addr
		} else {
			addr = fr.env[instr].(*Value)
		}
		*addr = in.zero(deref(instr.Type()))

	case *ssa.MakeSlice:
		capN := int(in.concreteInt(fr.get(instr.Cap).(*Term), true))
		lenN := int(in.concreteInt(fr.get(instr.Len).(*Term), true))
		if lenN < 0 || capN < lenN {
			in.throw("makeslice: len out of range")
		}
		tElt := instr.Type().Underlying().(*types.Slice).Elem()
		fr.env[instr] = Slice{B: in.newBacking(tElt, capN), Off: 0, Len: lenN, Cap: capN}

	case *ssa.MakeMap:
		fr.env[instr] = &Map{KeyT: instr.Type().Underlying().(*types.Map).Key(), index: map[string]*mapEntry{}}

	case *ssa.Range:
		fr.env[instr] = in.rangeIter(fr.get(instr.X), instr.X.Type())

	case *ssa.Next:
		fr.env[instr] = fr.get(instr.Iter).(iterator).next(in)

	case *ssa.FieldAddr:
		p := fr.get(instr.X).(*Value)
		if p == nil {
			in.throw("invalid memory address or nil pointer dereference")
		}
		if _, isD := (*p).(Dummy); isD {
			cell := new(Value)
			*cell = in.dummyZero(deref(instr.Type()))
			fr.env[instr] = cell
			break
		}
		st, isStruct := (*p).(Struct)
		if !isStruct {
			in.unsupported("FieldAddr on pointer to %T (%v)", *p, instr.X.Type())
		}
		fr.env[instr] = &st[instr.Field]

	case *ssa.Field:
		fr.env[instr] = fr.get(instr.X).(Struct)[instr.Field]

	case *ssa.IndexAddr:
		x := fr.get(instr.X)
		idx := fr.get(instr.Index).(*Term)
		switch x := x.(type) {
		case Slice:
			i := in.checkIndex(idx, instr.Index.Type(), x.Len)
			fr.env[instr] = x.At(i)
		case *Value:
			if x == nil {
				in.throw("invalid memory address or nil pointer dereference")
			}
			arr := (*x).(Array)
			i := in.checkIndex(idx, instr.Index.Type(), len(arr))
			fr.env[instr] = &arr[i]
		default:
			in.unsupported("IndexAddr on %T", x)
		}

	case *ssa.Index:
		x := fr.get(instr.X)
		idx := fr.get(instr.Index).(*Term)
		switch x := x.(type) {
		case Array:
			i := in.checkIndex(idx, instr.Index.Type(), len(x))
			fr.env[instr] = copyVal(x[i])
		case string:
			if idx.IsConst() {
				i := in.checkIndex(idx, instr.Index.Type(), len(x))
				fr.env[instr] = in.tt.Const(8, uint64(x[i]))
			} else {
				fr.env[instr] = in.symIndexBytes(in.strTerms(x), idx, instr.Index.Type())
			}
		case SymStr:
			if idx.IsConst() {
				i := in.checkIndex(idx, instr.Index.Type(), len(x.B))
				fr.env[instr] = x.B[i]
			} else {
				fr.env[instr] = in.symIndexBytes(x.B, idx, instr.Index.Type())
			}
		default:
			in.unsupported("Index on %T", x)
		}

	case *ssa.Lookup:
		fr.env[instr] = in.lookup(instr, fr.get(instr.X), fr.get(instr.Index))

	case *ssa.MapUpdate:
		m := fr.get(instr.Map).(*Map)
		if m == nil {
			in.throw("assignment to entry in nil map")
		}
		in.mapInsert(m, fr.get(instr.Key), fr.get(instr.Value))

	case *ssa.TypeAssert:
		fr.env[instr] = in.typeAssert(instr, fr.get(instr.X).(Iface))

	case *ssa.MakeClosure:
		var bindings []Value
		for _, b := range instr.Bindings {
			bindings = append(bindings, fr.get(b))
		}
		fr.env[instr] = &Closure{instr.Fn.(*ssa.Function), bindings}

	case *ssa.Select:
		fr.env[instr] = in.selectOp(fr, instr)

	default:
		in.unsupported("instruction %T", instr)
	}
	return kNext
}

func (in *Interp) newBacking(elem types.Type, n int) *Backing {
	if n > 1<<20 {
		switch elem.Underlying().(type) {
		case *types.Basic:
			return &Backing{pages: map[int]*[pageSize]Value{}, n: n, zero: in.zero(elem)}
		}
		in.unsupported("huge non-scalar allocation of %d elements", n)
	}
	d := make([]Value, n)
	z := in.zero(elem)
	switch z.(type) {
	case Struct, Array:
		for i := range d {
			d[i] = in.zero(elem)
		}
	default:
		for i := range d {
			d[i] = z
		}
	}
	return &Backing{dense: d, n: n}
}

// symIndexBytes returns bytes[idx] for a symbolic index as an ite chain, after
// checking (by forking) that the index is in range.
func (in *Interp) symIndexBytes(bs []*Term, idx *Term, idxT types.Type) Value {
	n := len(bs)
	w := idx.S.W
	inRange := in.tt.Cmp(OUlt, idx, in.tt.Const(w, uint64(n)))
	if !in.branch(inRange) {
		in.throw(fmt.Sprintf("index out of range [%s] with length %d", idx, n))
	}
	var res *Term = in.tt.Const(8, 0)
	for i := n - 1; i >= 0; i-- {
		res = in.tt.Ite(in.tt.Eq(idx, in.tt.Const(w, uint64(i))), bs[i], res)
	}
	return res
}

// checkIndex returns a concrete in-range index, forking as needed; raises the
// Go run-time panic on the out-of-range side.
func (in *Interp) checkIndex(idx *Term, idxT types.Type, n int) int {
	w := idx.S.W
	if idx.IsConst() {
		var i int64
		if isSigned(idxT) {
			i = sext64(idx.Val, w)
		} else {
			if idx.Val > 1<<62 {
				i = -1
			} else {
				i = int64(idx.Val)
			}
		}
		if i < 0 || i >= int64(n) {
			in.throw(fmt.Sprintf("index out of range [%d] with length %d", i, n))
		}
		return int(i)
	}
	inRange := in.tt.Cmp(OUlt, idx, in.tt.Const(w, uint64(n)))
	if !in.branch(inRange) {
		in.throw(fmt.Sprintf("index out of range [%s] with length %d", idx, n))
	}
	return int(in.concretize(idx))
}

// concreteInt forces an integer to a concrete value (forking over its feasible values).
func (in *Interp) concreteInt(t *Term, signed bool) int64 {
	var v uint64
	if t.IsConst() {
		v = t.Val
	} else {
		v = in.concretize(t)
	}
	if signed {
		return sext64(v, t.S.W)
	}
	return int64(v)
}

func (in *Interp) panicString(v Value) string {
	switch v := v.(type) {
	case Iface:
		if v.T == nil {
			return "nil"
		}
		switch x := v.V.(type) {
		case string:
			return x
		case SymStr:
			return "<symbolic string>"
		case *Term:
			return x.String()
		}
		// error or Stringer: try calling Error()
		if m := in.findMethod(v.T, "Error"); m != nil {
			defer func() { recover() }()
			if s, ok := in.call(nil, token.NoPos, m, []Value{v.V}).(string); ok {
				return s
			}
		}
		return fmt.Sprintf("<%v>", v.T)
	}
	return fmt.Sprintf("%v", v)
}
