package main

// A long-lived SMT solver process driven over stdin/stdout (SMT-LIB2 text).
// One per worker. Terms are sent as (define-fun tN () Sort body) once per
// solver scope level 1 (the per-path scope); the path scope is popped at the
// end of every path.

import (
	"bufio"
	"fmt"
	"io"
	"os"
	"os/exec"
	"strings"
	"time"
)

type Solver struct {
	cmd     *exec.Cmd
	in      io.WriteCloser
	out     *bufio.Reader
	name    string
	argv    []string
	defined map[int]bool    // term ids defined in current path scope
	declUF  map[string]bool // UF declared (global scope)
	declVar map[string]bool
	tt      *TermTable
	// statistics
	Queries   int
	Sat       int
	Unsat     int
	Unknown   int
	Errors    int
	SolveTime time.Duration
	timeoutMS int
	log       io.Writer
	marker    int
	inPath    bool
	pending   strings.Builder
	OnDefine  func(t *Term) []string // extra assertions when a term is first defined (hash axioms)
}

func solverArgv(name string, timeoutMS int) []string {
	switch name {
	case "z3":
		return []string{"z3", "-in", fmt.Sprintf("-t:%d", timeoutMS)}
	case "z3-new":
		return []string{"z3-new", "-in", fmt.Sprintf("-t:%d", timeoutMS)}
	case "cvc5":
		return []string{"cvc5", "--incremental", "--lang=smt2", "--produce-models", fmt.Sprintf("--tlimit-per=%d", timeoutMS)}
	}
	panic("unknown solver " + name)
}

func NewSolver(name string, tt *TermTable, timeoutMS int) (*Solver, error) {
	s := &Solver{name: name, tt: tt, timeoutMS: timeoutMS}
	s.argv = solverArgv(name, timeoutMS)
	if err := s.start(); err != nil {
		return nil, err
	}
	return s, nil
}

// solverMemKB caps the address space of every solver process: a query that blows up must end
// as "unknown" (inconclusive), never take the machine down with 16 workers running.
const solverMemKB = 3 * 1024 * 1024

func (s *Solver) start() error {
	sh := fmt.Sprintf("ulimit -v %d; exec", solverMemKB)
	for _, a := range s.argv {
		sh += " '" + a + "'"
	}
	s.cmd = exec.Command("sh", "-c", sh)
	in, err := s.cmd.StdinPipe()
	if err != nil {
		return err
	}
	out, err := s.cmd.StdoutPipe()
	if err != nil {
		return err
	}
	s.cmd.Stderr = os.Stderr
	if err := s.cmd.Start(); err != nil {
		return err
	}
	s.in = in
	s.out = bufio.NewReaderSize(out, 1<<16)
	s.defined = map[int]bool{}
	s.declUF = map[string]bool{}
	s.declVar = map[string]bool{}
	s.inPath = false
	s.pending.Reset()
	s.send("(set-option :produce-models true)")
	if s.name == "cvc5" {
		s.send("(set-logic ALL)")
	}
	s.send("(declare-sort D 0)")
	return nil
}

func (s *Solver) Close() {
	if s.cmd != nil {
		s.in.Close()
		s.cmd.Process.Kill()
		s.cmd.Wait()
		s.cmd = nil
	}
}

func (s *Solver) send(line string) {
	s.pending.WriteString(line)
	s.pending.WriteByte('\n')
	if s.log != nil {
		fmt.Fprintln(s.log, line)
	}
}

func (s *Solver) flush() {
	if s.pending.Len() > 0 {
		io.WriteString(s.in, s.pending.String())
		s.pending.Reset()
	}
}

// roundTrip flushes pending commands plus an echo marker, and returns every
// output line printed before the marker.
func (s *Solver) roundTrip() []string {
	s.marker++
	mk := fmt.Sprintf("<<m%d>>", s.marker)
	s.send(fmt.Sprintf("(echo \"%s\")", mk))
	s.flush()
	var lines []string
	for {
		line, err := s.out.ReadString('\n')
		if err != nil {
			lines = append(lines, "(error \"solver died: "+err.Error()+"\")")
			// restart the solver so later paths can continue
			s.Close()
			s.start()
			return lines
		}
		line = strings.TrimRight(line, "\r\n")
		if line == mk || line == "\""+mk+"\"" {
			return lines
		}
		if line != "" {
			lines = append(lines, line)
		}
	}
}

// BeginPath opens the per-path scope.
func (s *Solver) BeginPath() {
	if s.inPath {
		s.EndPath()
	}
	s.send("(push 1)")
	s.inPath = true
	s.defined = map[int]bool{}
	// variables and UFs declared inside the scope are popped with it
	s.declVar = map[string]bool{}
	s.declUF = map[string]bool{}
}

func (s *Solver) EndPath() {
	if s.inPath {
		s.send("(pop 1)")
		s.inPath = false
		s.flush()
	}
}

// define makes sure t and its sub-terms are defined in the solver.
func (s *Solver) define(t *Term) {
	switch t.Op {
	case OConst:
		return
	case OVar:
		if !s.declVar[t.Name] {
			s.declVar[t.Name] = true
			s.send(fmt.Sprintf("(declare-fun %s () %s)", t.Name, t.S))
		}
		return
	}
	if s.defined[t.ID] {
		return
	}
	// iterative post-order to avoid deep recursion
	type fr struct {
		t *Term
		i int
	}
	stack := []fr{{t, 0}}
	for len(stack) > 0 {
		top := &stack[len(stack)-1]
		if top.i < len(top.t.Args) {
			a := top.t.Args[top.i]
			top.i++
			switch a.Op {
			case OConst:
			case OVar:
				if !s.declVar[a.Name] {
					s.declVar[a.Name] = true
					s.send(fmt.Sprintf("(declare-fun %s () %s)", a.Name, a.S))
				}
			default:
				if !s.defined[a.ID] {
					stack = append(stack, fr{a, 0})
				}
			}
			continue
		}
		cur := top.t
		stack = stack[:len(stack)-1]
		if s.defined[cur.ID] {
			continue
		}
		s.defined[cur.ID] = true
		if cur.Op == OApp && !s.declUF[cur.Name] {
			s.declUF[cur.Name] = true
			s.send(s.tt.UFDecls[cur.Name])
		}
		s.send(fmt.Sprintf("(define-fun t%d () %s %s)", cur.ID, cur.S, cur.body()))
		if s.OnDefine != nil {
			for _, ax := range s.OnDefine(cur) {
				s.send(ax)
			}
		}
	}
}

// DeclareUF makes sure an uninterpreted function used only inside axioms is declared.
func (s *Solver) DeclareUF(name, decl string) {
	if !s.declUF[name] {
		s.declUF[name] = true
		s.send(decl)
	}
}

// Assert adds t to the path condition.
func (s *Solver) Assert(t *Term) {
	if t.IsTrue() {
		return
	}
	s.define(t)
	s.send(fmt.Sprintf("(assert %s)", t.ref()))
}

type SatResult int

const (
	RSat SatResult = iota
	RUnsat
	RUnknown
)

func (r SatResult) String() string { return [...]string{"sat", "unsat", "unknown"}[r] }

// Check asks whether pathCondition ∧ extra is satisfiable. If keep is true the
// scope with extra stays open (caller must call PopCheck) so that a model can be read.
func (s *Solver) Check(extra *Term, keep bool) SatResult {
	if extra != nil {
		if extra.IsFalse() {
			if keep {
				s.send("(push 1)")
			}
			return RUnsat
		}
		s.define(extra)
	}
	s.send("(push 1)")
	if extra != nil && !extra.IsTrue() {
		s.send(fmt.Sprintf("(assert %s)", extra.ref()))
	}
	s.send("(check-sat)")
	t0 := time.Now()
	lines := s.roundTrip()
	s.SolveTime += time.Since(t0)
	s.Queries++
	res := RUnknown
	bad := false
	for _, l := range lines {
		switch {
		case l == "sat":
			res = RSat
		case l == "unsat":
			res = RUnsat
		case l == "unknown" || strings.HasPrefix(l, "timeout"):
			res = RUnknown
		case strings.Contains(l, "(error"):
			bad = true
			fmt.Fprintf(os.Stderr, "[solver %s] %s\n", s.name, l)
		}
	}
	if bad {
		s.Errors++
		res = RUnknown
	}
	switch res {
	case RSat:
		s.Sat++
	case RUnsat:
		s.Unsat++
	default:
		s.Unknown++
	}
	if !keep {
		s.send("(pop 1)")
	}
	return res
}

func (s *Solver) PopCheck() { s.send("(pop 1)") }

// GetValues reads model values for the given terms (after a sat Check with keep).
// Returns the raw value strings.
func (s *Solver) GetValues(ts []*Term) []string {
	res := make([]string, len(ts))
	// batches of up to 200 terms per get-value
	for from := 0; from < len(ts); from += 200 {
		to := from + 200
		if to > len(ts) {
			to = len(ts)
		}
		var idx []int
		var sb strings.Builder
		sb.WriteString("(get-value (")
		for i := from; i < to; i++ {
			t := ts[i]
			if t.IsConst() {
				res[i] = constLit(t)
				continue
			}
			if !s.defined[t.ID] && t.Op != OVar {
				res[i] = "?undefined"
				continue
			}
			if t.Op == OVar && !s.declVar[t.Name] {
				res[i] = "?undeclared"
				continue
			}
			idx = append(idx, i)
			sb.WriteByte(' ')
			sb.WriteString(t.ref())
		}
		sb.WriteString("))")
		if len(idx) == 0 {
			continue
		}
		s.send(sb.String())
		lines := s.roundTrip()
		txt := strings.TrimSpace(strings.Join(lines, " "))
		vals := parseValuePairs(txt)
		for k, i := range idx {
			if k < len(vals) {
				res[i] = vals[k]
			} else {
				res[i] = "?" + txt
			}
		}
	}
	return res
}

// parseBVValue parses #x.. / #b.. / true / false into a uint64.
func parseBVValue(v string) (uint64, bool) {
	v = strings.TrimSpace(v)
	switch {
	case v == "true":
		return 1, true
	case v == "false":
		return 0, true
	case strings.HasPrefix(v, "#x"):
		var r uint64
		if len(v)-2 > 16 {
			return 0, false
		}
		_, err := fmt.Sscanf(v[2:], "%x", &r)
		return r, err == nil
	case strings.HasPrefix(v, "#b"):
		var r uint64
		for _, c := range v[2:] {
			r = r<<1 | uint64(c-'0')
		}
		return r, true
	case strings.HasPrefix(v, "(_ bv"):
		var r uint64
		var w int
		_, err := fmt.Sscanf(v, "(_ bv%d %d)", &r, &w)
		return r, err == nil
	}
	return 0, false
}

// parseValuePairs parses "((t1 v1) (t2 v2) …)" and returns the values in order.
func parseValuePairs(txt string) []string {
	var out []string
	depth := 0
	start := -1
	for i := 0; i < len(txt); i++ {
		switch txt[i] {
		case '(':
			depth++
			if depth == 2 {
				start = i + 1
			}
		case ')':
			if depth == 2 && start >= 0 {
				pair := strings.TrimSpace(txt[start:i])
				// split off the first token (the term reference)
				j := 0
				if strings.HasPrefix(pair, "(") {
					// reference itself parenthesised (should not happen: refs are symbols)
					d := 0
					for j = 0; j < len(pair); j++ {
						if pair[j] == '(' {
							d++
						} else if pair[j] == ')' {
							d--
							if d == 0 {
								j++
								break
							}
						}
					}
				} else {
					for j < len(pair) && pair[j] != ' ' {
						j++
					}
				}
				out = append(out, strings.TrimSpace(pair[j:]))
				start = -1
			}
			depth--
		}
	}
	return out
}
