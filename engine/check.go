package main

import (
	"bufio"
	"bytes"
	"encoding/json"
	"flag"
	"fmt"
	"os"
	"os/exec"
	"path/filepath"
	"sort"
	"strconv"
	"strings"
	"time"

	"golang.org/x/tools/go/ssa"
)

const verifDir = "/verif"

type EntrySpec struct {
	Pkg             string                    `json:"pkg"`
	Fn              string                    `json:"fn"`
	Tiers           map[string]map[string]int `json:"tiers"`
	ExpectViolation string                    `json:"expect_violation,omitempty"` // reachability twin: this label must be violated
	MaxPaths        int                       `json:"max_paths,omitempty"`
	MaxSteps        int64                     `json:"max_steps,omitempty"` // instruction budget per path (default 50M)
	TimeoutS        int                       `json:"timeout_s,omitempty"`
	NoValidate      bool                      `json:"no_validate,omitempty"`
	Covers          []string                  `json:"covers,omitempty"` // cover goals that must be met
	Note            string                    `json:"note,omitempty"`
	Redirects       map[string]string         `json:"redirects,omitempty"` // additional redirects for this entry only
	Validate        map[string]int            `json:"validate,omitempty"`  // per tier: number of explored-path models replayed natively and concretely (default 3 / 8)
}

type PropSpec struct {
	Overlay     map[string]string `json:"overlay"`
	Patterns    []string          `json:"patterns"`
	Entries     []EntrySpec       `json:"entries"`
	Assumptions []string          `json:"assumptions"`
	Blackhole   []string          `json:"blackhole,omitempty"`
	NeedsShim   bool              `json:"needs_shim,omitempty"`
	Redirects   map[string]string `json:"redirects,omitempty"` // callee full name -> "pkgpath.Func" of the model
	InitAllow   []string          `json:"init_allow,omitempty"`
	// Mirrors: functions of the tree whose call sequence a harness reproduces by hand
	// (e.g. a constructor that cannot be executed because it opens sockets). The static
	// calls listed must occur in the function, in this order; otherwise the harness no
	// longer mirrors the code and the run is inconclusive. Callees that do not exist
	// anywhere in the current tree are skipped (the harness skips them as well).
	Mirrors []MirrorSpec `json:"mirrors,omitempty"`
}

type MirrorSpec struct {
	Fn    string   `json:"fn"`
	Calls []string `json:"calls_in_order"`
}

// checkMirror returns "" if fn contains the listed static calls in order.
func checkMirror(all map[string]*ssa.Function, m MirrorSpec) string {
	fn := all[m.Fn]
	if fn == nil {
		return fmt.Sprintf("mirrored function %s not found in the current tree", m.Fn)
	}
	var seq []string
	for _, b := range fn.DomPreorder() {
		for _, ins := range b.Instrs {
			if c, ok := ins.(ssa.CallInstruction); ok {
				if callee := c.Common().StaticCallee(); callee != nil {
					seq = append(seq, callee.String())
				}
			}
		}
	}
	pos := 0
	for _, want := range m.Calls {
		if all[want] == nil {
			continue
		}
		found := false
		for pos < len(seq) {
			pos++
			if seq[pos-1] == want {
				found = true
				break
			}
		}
		if !found {
			return fmt.Sprintf("%s no longer calls %s at the point the harness mirrors (start-up sequence changed)", m.Fn, want)
		}
	}
	return ""
}

type KnownFinding struct {
	Property string `json:"property"`
	Entry    string `json:"entry"`
	Label    string `json:"label"`
	Status   string `json:"status"` // open | fixed
	Commit   string `json:"commit,omitempty"`
	What     string `json:"what"`
}

func loadSpecs() map[string]*PropSpec {
	b, err := os.ReadFile(filepath.Join(verifDir, "checks.json"))
	if err != nil {
		fmt.Fprintln(os.Stderr, "cannot read checks.json:", err)
		os.Exit(3)
	}
	specs := map[string]*PropSpec{}
	if err := json.Unmarshal(b, &specs); err != nil {
		fmt.Fprintln(os.Stderr, "bad checks.json:", err)
		os.Exit(3)
	}
	return specs
}

func loadKnown() []KnownFinding {
	f, err := os.Open(filepath.Join(verifDir, "known_findings.jsonl"))
	if err != nil {
		return nil
	}
	defer f.Close()
	var out []KnownFinding
	sc := bufio.NewScanner(f)
	sc.Buffer(make([]byte, 1<<20), 1<<20)
	for sc.Scan() {
		line := strings.TrimSpace(sc.Text())
		if line == "" || strings.HasPrefix(line, "#") {
			continue
		}
		var k KnownFinding
		if json.Unmarshal([]byte(line), &k) == nil {
			out = append(out, k)
		}
	}
	return out
}

type entryReport struct {
	Entry        string            `json:"entry"`
	Params       map[string]int    `json:"params"`
	Paths        int               `json:"paths"`
	ByStatus     map[string]int    `json:"paths_by_status"`
	Forks        int               `json:"forks"`
	Steps        int64             `json:"ssa_instructions_interpreted"`
	AssertsSym   int               `json:"assertions_discharged_by_solver"`
	AssertsConc  int               `json:"assertions_true_by_construction"`
	Queries      map[string]int    `json:"queries"`
	SolverS      float64           `json:"solver_s"`
	WallS        float64           `json:"wall_s"`
	Covers       map[string]bool   `json:"cover_goals"`
	Reaches      []string          `json:"reached"`
	Bounds       map[string]string `json:"bounds"`
	Assumes      map[string]int    `json:"paths_pruned_by_assume"`
	Inconclusive map[string]int    `json:"inconclusive,omitempty"`
	Stubs        map[string]int    `json:"stubs_hit,omitempty"`
	HashApps     int               `json:"hash_applications"`
	Candidates   []string          `json:"violation_candidates,omitempty"`
	Validated    int               `json:"vectors_validated_natively"`
	CrossCheck   map[string]string `json:"solver_cross_check,omitempty"`
	TwinOK       *bool             `json:"twin_violated,omitempty"`
}

type replayDoc struct {
	Property string         `json:"property"`
	Entry    string         `json:"entry"`
	Pkg      string         `json:"pkg"`
	Fn       string         `json:"fn"`
	Label    string         `json:"label"`
	Msg      string         `json:"msg"`
	Pos      string         `json:"pos"`
	Params   map[string]int `json:"params"`
	Inputs   []InputValue   `json:"inputs"`
	Stack    []string       `json:"stack,omitempty"`
}

func alias(pkg string) string {
	r := strings.NewReplacer("/", "_", ".", "_", "-", "_")
	return "p_" + r.Replace(strings.TrimPrefix(pkg, modPath+"/"))
}

// nativeBuilder builds (once) and runs the native replay binary of a property.
type nativeBuilder struct {
	id      string
	spec    *PropSpec
	files   map[string]string // overlay target -> real file
	bin     string
	built   bool
	failed  string
	buildS  float64
	workDir string
	missing map[string]bool // entries whose harness file was dropped (not in the native dispatcher)
}

func (nb *nativeBuilder) build() error {
	if nb.built {
		if nb.failed != "" {
			return fmt.Errorf("%s", nb.failed)
		}
		return nil
	}
	nb.built = true
	t0 := time.Now()
	nb.workDir = filepath.Join(verifDir, "replays", "_build", nb.id)
	os.MkdirAll(nb.workDir, 0o755)
	// generated dispatcher
	var sb strings.Builder
	sb.WriteString("package replaymain\n\nimport (\n\t\"os\"\n\t\"testing\"\n\n\trt \"github.com/bbva/qed/zzverif/rt\"\n")
	pkgs := map[string]bool{}
	for _, e := range nb.spec.Entries {
		if nb.missing[e.Pkg+"."+e.Fn] {
			continue
		}
		pkgs[e.Pkg] = true
	}
	var pl []string
	for p := range pkgs {
		pl = append(pl, p)
	}
	sort.Strings(pl)
	for _, p := range pl {
		fmt.Fprintf(&sb, "\t%s %q\n", alias(p), p)
	}
	sb.WriteString(")\n\nvar entries = map[string]func(){\n")
	for _, e := range nb.spec.Entries {
		if nb.missing[e.Pkg+"."+e.Fn] {
			continue
		}
		fmt.Fprintf(&sb, "\t%q: %s.%s,\n", e.Pkg+"."+e.Fn, alias(e.Pkg), e.Fn)
	}
	sb.WriteString("}\n\nfunc TestReplay(t *testing.T) {\n\tf := entries[os.Getenv(\"VERIF_ENTRY\")]\n\tif f == nil {\n\t\tt.Fatal(\"unknown entry\")\n\t}\n\tif len(rt.RunNative(f)) > 0 {\n\t\tt.Fail()\n\t}\n}\n")
	gen := filepath.Join(nb.workDir, "replay_test.go")
	if err := os.WriteFile(gen, []byte(sb.String()), 0o644); err != nil {
		return err
	}
	ov := map[string]map[string]string{"Replace": {}}
	for target, real := range nb.files {
		ov["Replace"][target] = real
	}
	ov["Replace"][filepath.Join(repoDir, "zzverif/replaymain/replay_test.go")] = gen
	ovb, _ := json.Marshal(ov)
	ovPath := filepath.Join(nb.workDir, "overlay.json")
	os.WriteFile(ovPath, ovb, 0o644)
	nb.bin = filepath.Join(nb.workDir, "replay.test")
	cmd := exec.Command("go", "test", "-c", "-vet=off", "-tags=verif", "-overlay", ovPath, "-o", nb.bin, "./zzverif/replaymain")
	cmd.Dir = repoDir
	cmd.Env = append(os.Environ(), "GOFLAGS=-mod=mod", "GOPROXY=off", "GOSUMDB=off", "GOTOOLCHAIN=local")
	cmd.Env = append(cmd.Env, shimEnv()...)
	out, err := cmd.CombinedOutput()
	nb.buildS = time.Since(t0).Seconds()
	if err != nil {
		nb.failed = fmt.Sprintf("native build failed: %v\n%s", err, out)
		return fmt.Errorf("%s", nb.failed)
	}
	return nil
}

// run executes the entry natively with the given replay document; returns the
// failed assertion labels and the trace lines.
func (nb *nativeBuilder) run(entry string, params map[string]int, inputs []InputValue) (fails []string, traces []string, raw string, err error) {
	if err = nb.build(); err != nil {
		return
	}
	rf := filepath.Join(nb.workDir, fmt.Sprintf("in-%d.json", time.Now().UnixNano()))
	doc := map[string]interface{}{"inputs": inputs}
	b, _ := json.Marshal(doc)
	os.WriteFile(rf, b, 0o644)
	defer os.Remove(rf)
	pb, _ := json.Marshal(params)
	cmd := exec.Command(nb.bin, "-test.run", "^TestReplay$", "-test.timeout", "300s")
	cmd.Dir = nb.workDir
	cmd.Env = append(os.Environ(), "VERIF_REPLAY="+rf, "VERIF_ENTRY="+entry, "VERIF_PARAMS="+string(pb))
	out, _ := cmd.CombinedOutput()
	raw = string(out)
	for _, l := range strings.Split(raw, "\n") {
		switch {
		case strings.HasPrefix(l, "ASSERT-FAIL "):
			f := strings.Fields(l)
			if len(f) >= 2 {
				fails = append(fails, f[1])
			}
		case strings.HasPrefix(l, "TRACE "):
			traces = append(traces, strings.TrimPrefix(l, "TRACE "))
		}
	}
	if len(fails) == 0 && strings.Contains(raw, "fatal error: stack overflow") {
		fails = append(fails, "process-crash@stack-overflow")
	}
	if len(fails) == 0 && strings.Contains("\n"+raw, "\npanic: ") && strings.Contains(raw, "goroutine ") {
		// the process died: report the first frame inside the repository
		lines := strings.Split(raw, "\n")
		seen := false
		for _, l := range lines {
			if strings.HasPrefix(l, "panic: ") {
				seen = true
				continue
			}
			l = strings.TrimSpace(l)
			if !seen || !strings.HasPrefix(l, "/repo/") || strings.Contains(l, "/zzverif/") || strings.Contains(l, "zz_verif_") {
				continue
			}
			if j := strings.Index(l, " +0x"); j >= 0 {
				l = l[:j]
			}
			fails = append(fails, "process-crash@"+strings.TrimPrefix(l, "/repo/"))
			break
		}
	}
	return
}

func (nb *nativeBuilder) cleanup() {
	if nb.bin != "" {
		os.Remove(nb.bin)
		os.Remove(nb.bin + ".race")
	}
}

// runRace builds the replay binary with the race detector and runs a witness entry.
func (nb *nativeBuilder) runRace(entry string) (string, error) {
	if err := nb.build(); err != nil {
		return "", err
	}
	// the witness must be registered: add it to the dispatcher by regenerating it
	genPath := filepath.Join(nb.workDir, "replay_test.go")
	src, _ := os.ReadFile(genPath)
	i := strings.LastIndex(entry, ".")
	pkg, fn := entry[:i], entry[i+1:]
	line := fmt.Sprintf("\t%q: %s.%s,\n", entry, alias(pkg), fn)
	if !strings.Contains(string(src), line) {
		s := strings.Replace(string(src), "var entries = map[string]func(){\n", "var entries = map[string]func(){\n"+line, 1)
		os.WriteFile(genPath, []byte(s), 0o644)
	}
	bin := nb.bin + ".race"
	cmd := exec.Command("go", "test", "-c", "-race", "-vet=off", "-tags=verif", "-overlay", filepath.Join(nb.workDir, "overlay.json"), "-o", bin, "./zzverif/replaymain")
	cmd.Dir = repoDir
	cmd.Env = append(os.Environ(), "GOFLAGS=-mod=mod", "GOPROXY=off", "GOSUMDB=off", "GOTOOLCHAIN=local", "CGO_ENABLED=1")
	cmd.Env = append(cmd.Env, shimEnv()...)
	if out, err := cmd.CombinedOutput(); err != nil {
		return "", fmt.Errorf("race build failed: %v\n%s", err, out)
	}
	run := exec.Command(bin, "-test.run", "^TestReplay$", "-test.timeout", "300s")
	run.Dir = nb.workDir
	run.Env = append(os.Environ(), "VERIF_ENTRY="+entry, "VERIF_PARAMS={}", "GORACE=halt_on_error=0")
	out, _ := run.CombinedOutput()
	return string(out), nil
}

func sameStrings(a, b []string) bool {
	if len(a) != len(b) {
		return false
	}
	for i := range a {
		if a[i] != b[i] {
			return false
		}
	}
	return true
}

func uniqSorted(a []string) []string {
	m := map[string]bool{}
	for _, x := range a {
		m[x] = true
	}
	var out []string
	for x := range m {
		out = append(out, x)
	}
	sort.Strings(out)
	return out
}

func cmdCheck(args []string) {
	fs := flag.NewFlagSet("check", flag.ExitOnError)
	tier := fs.String("tier", "", "quick|thorough")
	only := fs.String("only", "", "run only this entry (Fn name)")
	workers := fs.Int("workers", 0, "workers")
	keep := fs.Bool("keep", false, "keep native build")
	maxPathsFlag := fs.Int("max-paths", 0, "override max paths (debugging)")
	fs.Parse(args[1:])
	id := args[0]
	if *tier == "" {
		*tier = os.Getenv("VERIF_TIER")
		if *tier == "" {
			*tier = "quick"
		}
	}
	seed := 0
	if s := os.Getenv("VERIF_SEED"); s != "" {
		seed, _ = strconv.Atoi(s)
	}
	specs := loadSpecs()
	spec := specs[id]
	if spec == nil {
		fmt.Fprintln(os.Stderr, "no check registered for", id)
		os.Exit(3)
	}
	start := time.Now()
	overlay := map[string]string{filepath.Join(verifDir, "rt"): "zzverif/rt", filepath.Join(verifDir, "models"): "zzverif/models"}
	for k, v := range spec.Overlay {
		overlay[filepath.Join(verifDir, k)] = v
	}
	var evidenceInconclusive []string
	prog, files, dropped, err := loadWithFallback(overlay, spec.Patterns, "verif")
	for _, d := range dropped {
		msg := "harness file no longer type-checks against the current tree and was left out: " + d
		fmt.Println("INCONCLUSIVE:", msg)
		evidenceInconclusive = append(evidenceInconclusive, msg)
	}
	if err != nil {
		// the harness no longer loads against the current tree: inconclusive, not an alarm
		fmt.Printf("INCONCLUSIVE: property=%s cannot load harness against current tree: %v\n", id, firstLine(err.Error()))
		writeEvidence(id, *tier, seed, spec, nil, nil, []string{"load failure: " + err.Error()}, 0, time.Since(start), 0, nil)
		os.Exit(0)
	}
	loadS := time.Since(start).Seconds()
	nb := &nativeBuilder{id: id, spec: spec, files: files, missing: map[string]bool{}}
	for _, e := range spec.Entries {
		if findFunc(prog, e.Pkg, e.Fn) == nil {
			nb.missing[e.Pkg+"."+e.Fn] = true
		}
	}
	if !*keep {
		defer nb.cleanup()
	}
	known := loadKnown()
	redirects := map[string]*ssa.Function{}
	var allFuncs map[string]*ssa.Function
	if len(spec.Mirrors) > 0 {
		all := map[string]*ssa.Function{}
		for f := range ssautilAllFunctions(prog) {
			all[f.String()] = f
		}
		for _, m := range spec.Mirrors {
			if msg := checkMirror(all, m); msg != "" {
				fmt.Println("INCONCLUSIVE:", msg)
				evidenceInconclusive = append(evidenceInconclusive, msg)
			}
		}
	}
	if len(spec.Redirects) > 0 {
		all := map[string]*ssa.Function{}
		for f := range ssautilAllFunctions(prog) {
			all[f.String()] = f
		}
		for from, to := range spec.Redirects {
			target := all[to]
			if _, ok := all[from]; !ok {
				// a rename in the tree must not silently disable a stub
				msg := fmt.Sprintf("redirect source %s matches nothing in the current tree", from)
				fmt.Println("INCONCLUSIVE:", msg)
				evidenceInconclusive = append(evidenceInconclusive, msg)
				continue
			}
			if target == nil {
				msg := fmt.Sprintf("redirect target %s not found", to)
				fmt.Println("INCONCLUSIVE:", msg)
				evidenceInconclusive = append(evidenceInconclusive, msg)
				continue
			}
			redirects[from] = target
		}
	}
	var reports []*entryReport
	functions := map[string]int64{}
	var samples []interface{}
	violations := 0
	knownHits := 0
	validated := 0
	var outLines []string

	for _, e := range spec.Entries {
		params, ok := e.Tiers[*tier]
		if !ok {
			continue
		}
		if *only != "" && e.Fn != *only {
			continue
		}
		entryName := e.Pkg + "." + e.Fn
		fn := findFunc(prog, e.Pkg, e.Fn)
		if fn == nil {
			msg := fmt.Sprintf("entry %s not found in current tree", entryName)
			fmt.Println("INCONCLUSIVE:", msg)
			evidenceInconclusive = append(evidenceInconclusive, msg)
			continue
		}
		cfg := baseConfig()
		if *workers > 0 {
			cfg.Workers = *workers
		}
		cfg.Blackhole = append(cfg.Blackhole, spec.Blackhole...)
		cfg.InitAllow = append(cfg.InitAllow, spec.InitAllow...)
		cfg.Redirects = redirects
		if len(e.Redirects) > 0 {
			merged := map[string]*ssa.Function{}
			for k, v := range redirects {
				merged[k] = v
			}
			for from, to := range e.Redirects {
				if allFuncs == nil {
					allFuncs = map[string]*ssa.Function{}
					for f := range ssautilAllFunctions(prog) {
						allFuncs[f.String()] = f
					}
				}
				if _, ok := allFuncs[from]; !ok || allFuncs[to] == nil {
					msg := fmt.Sprintf("%s: redirect %s -> %s does not resolve in the current tree", e.Fn, from, to)
					fmt.Println("INCONCLUSIVE:", msg)
					evidenceInconclusive = append(evidenceInconclusive, msg)
					continue
				}
				merged[from] = allFuncs[to]
			}
			cfg.Redirects = merged
		}
		redirectsForEntry := cfg.Redirects
		cfg.Params = params
		cfg.MaxPaths = e.MaxPaths
		if e.MaxSteps > 0 {
			cfg.MaxSteps = e.MaxSteps
		}
		if *maxPathsFlag > 0 {
			cfg.MaxPaths = *maxPathsFlag
		}
		cfg.SampleModels = 3
		cfg.AfterViolation = 300
		cfg.TimeBudget = 15 * time.Minute
		if *tier == "thorough" {
			cfg.TimeBudget = 60 * time.Minute
		}
		if *tier == "thorough" {
			cfg.SampleModels = 8
			cfg.SolverTimeoutMS = 120000
		}
		if v, ok := e.Validate[*tier]; ok {
			cfg.SampleModels = v
		}
		cfg.Seed = seed
		if e.TimeoutS > 0 {
			cfg.TimeBudget = time.Duration(e.TimeoutS) * time.Second
		}
		sum := Explore(prog, fn, cfg)
		rep := &entryReport{Entry: entryName, Params: params, Paths: sum.Paths, ByStatus: sum.ByStatus, Forks: sum.Forks, Steps: sum.Steps,
			AssertsSym: sum.AssertsSym, AssertsConc: sum.AssertsConc,
			Queries: map[string]int{"total": sum.Queries, "sat": sum.QSat, "unsat": sum.QUnsat, "unknown": sum.QUnknown, "error": sum.QErrors},
			SolverS: sum.SolverTime.Seconds(), WallS: sum.Wall.Seconds(), Covers: map[string]bool{}, Bounds: sum.Bounds, Assumes: sum.Assumes,
			Inconclusive: sum.Inconclusive, Stubs: sum.Stubs, HashApps: sum.HashApps}
		for k := range sum.CoverSeen {
			rep.Covers[k] = sum.Covers[k]
		}
		for k := range sum.Reaches {
			rep.Reaches = append(rep.Reaches, k)
		}
		sort.Strings(rep.Reaches)
		for f, n := range sum.Functions {
			functions[f] += n
		}
		for _, s := range sum.Samples {
			if len(samples) < 6 {
				samples = append(samples, map[string]string{"entry": e.Fn, "path_condition": s})
			}
		}
		for i, vec := range sum.ModelVectors {
			if i >= 1 || len(samples) >= 10 {
				break
			}
			m := map[string]string{}
			for _, iv := range vec {
				if iv.Kind != "hdef" && len(m) < 24 {
					m[iv.Name] = iv.Value
				}
			}
			samples = append(samples, map[string]interface{}{"entry": e.Fn, "explored_input_vector": m})
		}
		reports = append(reports, rep)
		fmt.Printf("[%s %s] paths=%d %v forks=%d asserts(solver=%d,concrete=%d) queries=%d unknown=%d wall=%.1fs\n", id, e.Fn, sum.Paths, sum.ByStatus, sum.Forks, sum.AssertsSym, sum.AssertsConc, sum.Queries, sum.QUnknown, sum.Wall.Seconds())

		if sum.Truncated != "" && e.ExpectViolation == "" {
			msg := e.Fn + ": " + sum.Truncated
			fmt.Println("INCONCLUSIVE:", msg)
			evidenceInconclusive = append(evidenceInconclusive, msg)
		}
		// reachability twin
		if e.ExpectViolation != "" {
			hit := false
			for _, v := range sum.Violations {
				if v.Label == e.ExpectViolation {
					hit = true
				}
			}
			rep.TwinOK = &hit
			if !hit {
				msg := fmt.Sprintf("vacuity: twin %s did not reach its assert(false)", entryName)
				fmt.Println("INCONCLUSIVE:", msg)
				evidenceInconclusive = append(evidenceInconclusive, msg)
			}
			continue
		}
		for k, n := range sum.Inconclusive {
			msg := fmt.Sprintf("%s: %s (x%d)", e.Fn, firstLine(k), n)
			fmt.Println("INCONCLUSIVE:", msg)
			evidenceInconclusive = append(evidenceInconclusive, msg)
		}
		for _, c := range e.Covers {
			if !sum.Covers[c] {
				msg := fmt.Sprintf("%s: cover goal %q not reached", e.Fn, c)
				fmt.Println("INCONCLUSIVE:", msg)
				evidenceInconclusive = append(evidenceInconclusive, msg)
			}
		}

		// translator validation on model vectors of explored paths
		if !e.NoValidate {
			for i, vec := range sum.ModelVectors {
				conc := map[string]InputValue{}
				for _, iv := range vec {
					conc[iv.Name] = iv
				}
				ccfg := baseConfig()
				ccfg.Workers = 1
				ccfg.Blackhole = cfg.Blackhole
				ccfg.InitAllow = cfg.InitAllow
				ccfg.Redirects = redirectsForEntry
				ccfg.Params = params
				ccfg.Concrete = conc
				csum := Explore(prog, fn, ccfg)
				var cfails []string
				for _, v := range csum.Violations {
					cfails = append(cfails, v.Label)
				}
				nfails, ntraces, raw, err := nb.run(entryName, params, vec)
				if err != nil {
					msg := "native build failed; no translator validation: " + firstLine(err.Error())
					fmt.Println("INCONCLUSIVE:", msg)
					evidenceInconclusive = append(evidenceInconclusive, msg)
					break
				}
				if !sameLabelSets(uniqSorted(cfails), uniqSorted(nfails)) || !sameStrings(csum.Traces, ntraces) {
					msg := fmt.Sprintf("%s: translator validation mismatch on vector %d: engine fails=%v traces=%d native fails=%v traces=%d", e.Fn, i, uniqSorted(cfails), len(csum.Traces), uniqSorted(nfails), len(ntraces))
					fmt.Println("INCONCLUSIVE:", msg)
					if os.Getenv("VERIF_DEBUG") != "" {
						fmt.Println(raw)
						fmt.Println("engine traces:", csum.Traces)
						fmt.Println("engine status:", csum.ByStatus, csum.Inconclusive)
					}
					evidenceInconclusive = append(evidenceInconclusive, msg)
				} else {
					validated++
					rep.Validated++
				}
			}
		}

		// thorough tier: the same entry (at its quick bounds) is decided again by two other
		// solvers; the verdicts (set of violated labels, number of assertions discharged,
		// paths) must agree with a z3 4.8.12 run at the same bounds
		if *tier == "thorough" && e.Tiers["quick"] != nil && os.Getenv("VERIF_NO_CROSSCHECK") == "" {
			type verdict struct {
				labels string
				paths  int
				proved int
			}
			runWith := func(solver string) (verdict, *Summary) {
				xc := baseConfig()
				if *workers > 0 {
					xc.Workers = *workers
				}
				xc.Blackhole = cfg.Blackhole
				xc.InitAllow = cfg.InitAllow
				xc.Redirects = redirectsForEntry
				xc.Params = e.Tiers["quick"]
				xc.Solver = solver
				xc.MaxPaths = 20000
				xc.TimeBudget = 10 * time.Minute
				xc.AfterViolation = 300
				xs := Explore(prog, fn, xc)
				var ls []string
				for _, v := range xs.Violations {
					ls = append(ls, v.Label)
				}
				sort.Strings(ls)
				return verdict{strings.Join(ls, ","), xs.Paths, xs.AssertsSym}, xs
			}
			ref, _ := runWith("z3")
			rep.CrossCheck = map[string]string{"z3 4.8.12": fmt.Sprintf("paths=%d solver-discharged=%d violated=[%s]", ref.paths, ref.proved, ref.labels)}
			for _, s := range []string{"z3-new", "cvc5"} {
				v, xs := runWith(s)
				rep.CrossCheck[s] = fmt.Sprintf("paths=%d solver-discharged=%d violated=[%s] unknown=%d", v.paths, v.proved, v.labels, xs.QUnknown)
				if v != ref && xs.QUnknown == 0 && len(xs.Inconclusive) == 0 {
					msg := fmt.Sprintf("%s: solver disagreement: z3 %+v vs %s %+v", e.Fn, ref, s, v)
					fmt.Println("INCONCLUSIVE:", msg)
					evidenceInconclusive = append(evidenceInconclusive, msg)
				}
			}
		}

		// violation candidates: replay natively before reporting
		for _, v := range sum.Violations {
			rep.Candidates = append(rep.Candidates, v.Label)
			doc := replayDoc{Property: id, Entry: entryName, Pkg: e.Pkg, Fn: e.Fn, Label: v.Label, Msg: v.Msg, Pos: v.Pos, Params: params, Inputs: v.Inputs, Stack: v.Stack}
			rdir := filepath.Join(verifDir, "replays", id)
			os.MkdirAll(rdir, 0o755)
			san := strings.NewReplacer("/", "_", ":", "_", "@", "_", " ", "_", ">", "", "<", "", "=", "-", "(", "", ")", "", "*", "").Replace(v.Label)
			rpath := filepath.Join(rdir, fmt.Sprintf("%s-%s.json", e.Fn, san))
			b, _ := json.MarshalIndent(doc, "", " ")
			os.WriteFile(rpath, b, 0o644)
			nfails, _, raw, err := nb.run(entryName, params, v.Inputs)
			if err != nil {
				msg := fmt.Sprintf("%s: candidate %s could not be replayed (native build failed: %s)", e.Fn, v.Label, firstLine(err.Error()))
				fmt.Println("INCONCLUSIVE:", msg)
				evidenceInconclusive = append(evidenceInconclusive, msg)
				continue
			}
			reproduced := false
			for _, f := range nfails {
				if labelsMatch(f, v.Label) {
					reproduced = true
				}
			}
			if !reproduced && !strings.HasPrefix(v.Label, "lockset:") {
				// other explored paths violating the same label: spread over the alternates, at most 6 tries
				step := len(v.Alternates)/6 + 1
				for ai := len(v.Alternates) - 1; ai >= 0 && !reproduced; ai -= step {
					af, _, araw, aerr := nb.run(entryName, params, v.Alternates[ai])
					if aerr != nil {
						break
					}
					for _, f := range af {
						if labelsMatch(f, v.Label) {
							reproduced = true
						}
					}
					if reproduced {
						nfails, raw = af, araw
						doc.Inputs = v.Alternates[ai]
						b, _ := json.MarshalIndent(doc, "", " ")
						os.WriteFile(rpath, b, 0o644)
					}
				}
			}
			if strings.HasPrefix(v.Label, "lockset:") {
				// a lockset finding is confirmed natively by the entry's companion
				// "<Fn>Race" witness under the race detector
				out, rerr := nb.runRace(entryName + "Race")
				if rerr != nil {
					raw = rerr.Error()
				} else {
					raw = out
					reproduced = strings.Contains(out, "WARNING: DATA RACE")
				}
			}
			if !reproduced {
				msg := fmt.Sprintf("%s: counterexample for %s did not reproduce natively (native failures: %v) — encoding or stub fault, not reported as violation; replay=%s", e.Fn, v.Label, nfails, rpath)
				fmt.Println("INCONCLUSIVE:", msg)
				if os.Getenv("VERIF_DEBUG") != "" {
					fmt.Println(raw)
				}
				evidenceInconclusive = append(evidenceInconclusive, msg)
				continue
			}
			// confirmed: known finding or new violation?
			isKnown := false
			for _, k := range known {
				if k.Property == id && k.Status == "open" && k.Label == v.Label && (k.Entry == "" || k.Entry == e.Fn) {
					isKnown = true
					outLines = append(outLines, fmt.Sprintf("KNOWN-FINDING: property=%s %s [%s %s] replay=%s", id, k.What, e.Fn, v.Label, rpath))
					knownHits++
				}
			}
			if !isKnown {
				violations++
				outLines = append(outLines, fmt.Sprintf("VIOLATION property=%s replay=%s", id, rpath))
				outLines = append(outLines, fmt.Sprintf("  entry=%s label=%s: %s", e.Fn, v.Label, v.Msg))
			}
		}
	}
	for _, l := range outLines {
		fmt.Println(l)
	}
	writeEvidence(id, *tier, seed, spec, reports, functions, evidenceInconclusive, violations, time.Since(start), validated, samples)
	_ = loadS
	if violations > 0 {
		os.Exit(1)
	}
	os.Exit(0)
}

func writeEvidence(id, tier string, seed int, spec *PropSpec, reports []*entryReport, functions map[string]int64, inconclusive []string, violations int, wall time.Duration, validated int, samples []interface{}) {
	states, transitions := 0, 0
	solverS := 0.0
	queries := map[string]int{}
	bounds := map[string]string{}
	for _, r := range reports {
		states += r.Paths
		transitions += r.Forks + r.Queries["total"]
		solverS += r.SolverS
		for k, v := range r.Queries {
			queries[k] += v
		}
		for k, v := range r.Bounds {
			bounds[r.Entry[strings.LastIndex(r.Entry, ".")+1:]+"."+k] = v
		}
	}
	type fnc struct {
		Name  string `json:"name"`
		Calls int64  `json:"calls"`
	}
	var fl []fnc
	for f, n := range functions {
		fl = append(fl, fnc{f, n})
	}
	sort.Slice(fl, func(i, j int) bool { return fl[i].Name < fl[j].Name })
	if len(samples) == 0 {
		samples = append(samples, map[string]string{"note": "no symbolic path condition recorded (all paths concrete or load failure)"})
	}
	if states == 0 {
		states = 1
	}
	if transitions == 0 {
		transitions = 1
	}
	ev := map[string]interface{}{
		"property_id": id,
		"tier":        tier,
		"seed":        seed,
		"level":       "model_checking",
		"coverage": map[string]interface{}{
			"states":                        states,
			"transitions":                   transitions,
			"traces_validated_against_impl": validated,
			"samples":                       samples,
			"exhaustive":                    len(inconclusive) == 0,
			"explanation":                   "bounded symbolic execution of the real code (go/ssa of /repo's working tree, regenerated on this run); states = execution paths explored to completion, transitions = forks + SMT queries; every assertion on every path is discharged by z3 (unsat) or is true by construction after constant folding / hash-consing",
			"entries":                       reports,
			"functions_encoded":             fl,
			"functions_encoded_count":       len(fl),
			"bounds":                        bounds,
			"queries":                       queries,
			"solver_s":                      solverS,
			"solver":                        "z3 4.8.12 (z3 -in, one process per worker, push/pop per path)",
			"inconclusive":                  inconclusive,
		},
		"assumptions": spec.Assumptions,
		"wall_s":      wall.Seconds(),
		"violations":  violations,
	}
	os.MkdirAll(filepath.Join(verifDir, "evidence"), 0o755)
	b, _ := json.MarshalIndent(ev, "", " ")
	os.WriteFile(filepath.Join(verifDir, "evidence", id+".json"), b, 0o644)
}

func cmdReplay(args []string) {
	if len(args) < 1 {
		fmt.Fprintln(os.Stderr, "usage: qv replay <file>")
		os.Exit(2)
	}
	b, err := os.ReadFile(args[0])
	if err != nil {
		fmt.Fprintln(os.Stderr, err)
		os.Exit(2)
	}
	var doc replayDoc
	if err := json.Unmarshal(b, &doc); err != nil {
		fmt.Fprintln(os.Stderr, err)
		os.Exit(2)
	}
	specs := loadSpecs()
	spec := specs[doc.Property]
	if spec == nil {
		fmt.Fprintln(os.Stderr, "unknown property", doc.Property)
		os.Exit(2)
	}
	overlay := map[string]string{filepath.Join(verifDir, "rt"): "zzverif/rt", filepath.Join(verifDir, "models"): "zzverif/models"}
	for k, v := range spec.Overlay {
		overlay[filepath.Join(verifDir, k)] = v
	}
	files := map[string]string{}
	for src, dst := range overlay {
		ents, _ := os.ReadDir(src)
		for _, e := range ents {
			if !e.IsDir() && strings.HasSuffix(e.Name(), ".go") {
				files[filepath.Join(repoDir, dst, e.Name())] = filepath.Join(src, e.Name())
			}
		}
	}
	nb := &nativeBuilder{id: doc.Property + "-replay", spec: spec, files: files}
	defer nb.cleanup()
	fails, _, raw, err := nb.run(doc.Entry, doc.Params, doc.Inputs)
	if err != nil {
		fmt.Fprintln(os.Stderr, err)
		os.Exit(2)
	}
	fmt.Print(raw)
	for _, f := range fails {
		if labelsMatch(f, doc.Label) {
			fmt.Printf("REPRODUCED property=%s label=%s\n", doc.Property, doc.Label)
			os.Exit(1)
		}
	}
	fmt.Printf("NOT-REPRODUCED property=%s label=%s (native failures: %v)\n", doc.Property, doc.Label, fails)
	os.Exit(0)
}

var _ = bytes.Equal
var _ *ssa.Function

// labelsMatch compares assertion labels; for panic-site labels ("name@file:line")
// the line may differ by a few lines between the SSA position of the faulting
// instruction and the line the Go runtime reports for a multi-line expression.
func labelsMatch(a, b string) bool {
	if a == b {
		return true
	}
	// a native crash of the whole process (panic in a goroutine the harness does
	// not own, e.g. Raft's FSM runner) is matched on the panic site alone
	if (a == "process-crash@stack-overflow" && strings.HasSuffix(b, ":no-termination")) || (b == "process-crash@stack-overflow" && strings.HasSuffix(a, ":no-termination")) {
		return true
	}
	if strings.HasPrefix(a, "process-crash@") || strings.HasPrefix(b, "process-crash@") {
		ja, jb := strings.Index(a, "@"), strings.Index(b, "@")
		if ja < 0 || jb < 0 {
			return false
		}
		a, b = "x"+a[ja:], "x"+b[jb:]
		if a == b {
			return true
		}
	}
	ia, ib := strings.LastIndex(a, ":"), strings.LastIndex(b, ":")
	if ia < 0 || ib < 0 || a[:ia] != b[:ib] || !strings.Contains(a[:ia], "@") {
		return false
	}
	la, e1 := strconv.Atoi(a[ia+1:])
	lb, e2 := strconv.Atoi(b[ib+1:])
	if e1 != nil || e2 != nil {
		return false
	}
	d := la - lb
	return d >= -3 && d <= 3
}

func sameLabelSets(a, b []string) bool {
	if len(a) != len(b) {
		return false
	}
	for i := range a {
		if !labelsMatch(a[i], b[i]) {
			return false
		}
	}
	return true
}
