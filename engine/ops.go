package main

import (
	"crypto/sha256"
	"fmt"
	"go/token"
	"go/types"
	"math"
	"strings"
	"unicode/utf8"

	"golang.org/x/tools/go/ssa"
)

// ---- strings ----

func (in *Interp) strTerms(v Value) []*Term {
	switch v := v.(type) {
	case string:
		r := make([]*Term, len(v))
		for i := 0; i < len(v); i++ {
			r[i] = in.tt.byteC[v[i]]
		}
		return r
	case SymStr:
		return v.B
	}
	panic(fmt.Sprintf("strTerms of %T", v))
}

func (in *Interp) mkStr(bs []*Term) Value {
	buf := make([]byte, len(bs))
	for i, b := range bs {
		if !b.IsConst() {
			cp := make([]*Term, len(bs))
			copy(cp, bs)
			return SymStr{cp}
		}
		buf[i] = byte(b.Val)
	}
	return string(buf)
}

func strLen(v Value) int {
	switch v := v.(type) {
	case string:
		return len(v)
	case SymStr:
		return len(v.B)
	}
	panic(fmt.Sprintf("strLen of %T", v))
}

// sliceBytes returns the byte terms of a []byte slice value.
func (in *Interp) sliceBytes(s Slice) []*Term {
	r := make([]*Term, s.Len)
	for i := 0; i < s.Len; i++ {
		r[i] = (*s.At(i)).(*Term)
	}
	return r
}

func (in *Interp) bytesToSlice(bs []*Term) Slice {
	d := make([]Value, len(bs))
	for i, b := range bs {
		d[i] = b
	}
	return Slice{B: &Backing{dense: d, n: len(d)}, Off: 0, Len: len(d), Cap: len(d)}
}

// dRun reports whether bs[i:] starts with a full digest run db0(d)..db(L-1)(d).
func (in *Interp) dRun(bs []*Term, i int) *Term {
	L := in.hashLen
	if L == 0 || i+L > len(bs) {
		return nil
	}
	t := bs[i]
	if t.Op != OApp || t.Name != "db0" {
		return nil
	}
	d := t.Args[0]
	for k := 1; k < L; k++ {
		u := bs[i+k]
		if u.Op != OApp || len(u.Args) != 1 || u.Args[0] != d || u.Name != dbName(k) {
			return nil
		}
	}
	return d
}

var dbNames []string

func dbName(k int) string {
	for len(dbNames) <= k {
		dbNames = append(dbNames, fmt.Sprintf("db%d", len(dbNames)))
	}
	return dbNames[k]
}

// eqBytes builds the equality of two byte sequences of equal length, using
// digest-level equality for aligned digest runs.
func (in *Interp) eqBytes(a, b []*Term) *Term {
	if len(a) != len(b) {
		return in.tt.False
	}
	res := in.tt.True
	for i := 0; i < len(a); {
		if a[i] == b[i] {
			i++
			continue
		}
		if da := in.dRun(a, i); da != nil {
			if db := in.dRun(b, i); db != nil {
				res = in.tt.And(res, in.tt.Eq(da, db))
				i += in.hashLen
				continue
			}
		}
		res = in.tt.And(res, in.tt.Eq(a[i], b[i]))
		if res.IsFalse() {
			return res
		}
		i++
	}
	return res
}

// cmpBytes returns (lt, eq) terms of the lexicographic comparison.
func (in *Interp) cmpBytes(a, b []*Term) (lt, eq *Term) {
	n := len(a)
	if len(b) < n {
		n = len(b)
	}
	// fast path: a concrete (or syntactically identical) common prefix decides or shortens the comparison
	start := 0
	for start < n {
		x, y := a[start], b[start]
		if x == y {
			start++
			continue
		}
		if x.IsConst() && y.IsConst() {
			return in.tt.Bool(x.Val < y.Val), in.tt.False
		}
		break
	}
	if start > 0 {
		a, b = a[start:], b[start:]
		n -= start
	}
	// process from the end: lt_i = a[i]<b[i] || (a[i]==b[i] && lt_{i+1})
	var ltT, eqT *Term
	if len(a) < len(b) {
		ltT, eqT = in.tt.True, in.tt.False
	} else if len(a) == len(b) {
		ltT, eqT = in.tt.False, in.tt.True
	} else {
		ltT, eqT = in.tt.False, in.tt.False
	}
	for i := n - 1; i >= 0; i-- {
		e := in.tt.Eq(a[i], b[i])
		l := in.tt.Cmp(OUlt, a[i], b[i])
		ltT = in.tt.Or(l, in.tt.And(e, ltT))
		eqT = in.tt.And(e, eqT)
	}
	return ltT, eqT
}

// ---- equality ----

func (in *Interp) eqValue(x, y Value) *Term {
	switch x := x.(type) {
	case *Term:
		return in.tt.Eq(x, y.(*Term))
	case string:
		if ys, ok := y.(string); ok {
			return in.tt.Bool(x == ys)
		}
		return in.eqBytes(in.strTerms(x), in.strTerms(y))
	case SymStr:
		return in.eqBytes(x.B, in.strTerms(y))
	case float64:
		return in.tt.Bool(x == y.(float64))
	case complex128:
		return in.tt.Bool(x == y.(complex128))
	case *Value:
		return in.tt.Bool(x == y.(*Value))
	case Struct:
		ys := y.(Struct)
		r := in.tt.True
		for i := range x {
			r = in.tt.And(r, in.eqValue(x[i], ys[i]))
		}
		return r
	case Array:
		ys := y.(Array)
		r := in.tt.True
		for i := range x {
			r = in.tt.And(r, in.eqValue(x[i], ys[i]))
		}
		return r
	case Iface:
		yi := y.(Iface)
		if x.T == nil || yi.T == nil {
			return in.tt.Bool(x.T == nil && yi.T == nil)
		}
		if !types.Identical(x.T, yi.T) {
			return in.tt.False
		}
		if _, ok := x.V.(Dummy); ok {
			return in.tt.Bool(x.V == yi.V)
		}
		if _, ok := yi.V.(Dummy); ok {
			return in.tt.False
		}
		switch x.V.(type) {
		case Slice, *Map, *Closure:
			in.throw("comparing uncomparable type " + x.T.String())
		}
		return in.eqValue(x.V, yi.V)
	case *Map:
		return in.tt.Bool(x == y.(*Map))
	case *Chan:
		return in.tt.Bool(x == y.(*Chan))
	case *ssa.Function:
		switch y := y.(type) {
		case *ssa.Function:
			return in.tt.Bool(x == y)
		}
		return in.tt.Bool(false)
	case *Closure:
		switch y := y.(type) {
		case *Closure:
			return in.tt.Bool(x == y)
		case *ssa.Function:
			return in.tt.Bool(false && y == nil)
		}
		return in.tt.False
	case Slice:
		ys := y.(Slice)
		return in.tt.Bool(x.IsNil() && ys.IsNil())
	case Dummy:
		return in.tt.Bool(x == y)
	case nil:
		return in.tt.Bool(y == nil)
	}
	in.unsupported("eqValue %T", x)
	return nil
}

// ---- unary / binary ----

func (in *Interp) unop(instr *ssa.UnOp, x Value) Value {
	switch instr.Op {
	case token.ARROW:
		return in.chanRecv(x.(*Chan), instr.CommaOk)
	case token.SUB:
		switch x := x.(type) {
		case *Term:
			return in.tt.Neg(x)
		case float64:
			return -x
		}
	case token.MUL:
		return in.load(deref(instr.X.Type()), x.(*Value))
	case token.NOT:
		return in.tt.Not(x.(*Term))
	case token.XOR:
		return in.tt.BNot(x.(*Term))
	}
	in.unsupported("unop %v %T", instr.Op, x)
	return nil
}

func (in *Interp) binop(op token.Token, t types.Type, x, y Value, yT types.Type) Value {
	switch op {
	case token.EQL:
		return in.eqValue(x, y)
	case token.NEQ:
		return in.tt.Not(in.eqValue(x, y))
	}
	switch x := x.(type) {
	case *Term:
		yt := y.(*Term)
		if x.S.K == SBool {
			in.unsupported("bool binop %v", op)
		}
		signed := isSigned(t)
		switch op {
		case token.ADD:
			return in.tt.Bin(OAdd, x, yt)
		case token.SUB:
			return in.tt.Bin(OSub, x, yt)
		case token.MUL:
			return in.tt.Bin(OMul, x, yt)
		case token.QUO, token.REM:
			z := in.tt.Eq(yt, in.tt.Const(yt.S.W, 0))
			if in.branch(z) {
				in.throw("integer divide by zero")
			}
			if signed {
				if op == token.QUO {
					return in.tt.Bin(OSDiv, x, yt)
				}
				return in.tt.Bin(OSRem, x, yt)
			}
			if op == token.QUO {
				return in.tt.Bin(OUDiv, x, yt)
			}
			return in.tt.Bin(OURem, x, yt)
		case token.AND:
			return in.tt.Bin(OBAnd, x, yt)
		case token.OR:
			return in.tt.Bin(OBOr, x, yt)
		case token.XOR:
			return in.tt.Bin(OBXor, x, yt)
		case token.AND_NOT:
			return in.tt.Bin(OBAnd, x, in.tt.BNot(yt))
		case token.SHL, token.SHR:
			return in.shift(op, x, signed, yt, isSigned(yT))
		case token.LSS:
			if signed {
				return in.tt.Cmp(OSlt, x, yt)
			}
			return in.tt.Cmp(OUlt, x, yt)
		case token.LEQ:
			if signed {
				return in.tt.Cmp(OSle, x, yt)
			}
			return in.tt.Cmp(OUle, x, yt)
		case token.GTR:
			if signed {
				return in.tt.Cmp(OSlt, yt, x)
			}
			return in.tt.Cmp(OUlt, yt, x)
		case token.GEQ:
			if signed {
				return in.tt.Cmp(OSle, yt, x)
			}
			return in.tt.Cmp(OUle, yt, x)
		}
	case float64:
		yf := y.(float64)
		switch op {
		case token.ADD:
			return in.fround(t, x+yf)
		case token.SUB:
			return in.fround(t, x-yf)
		case token.MUL:
			return in.fround(t, x*yf)
		case token.QUO:
			return in.fround(t, x/yf)
		case token.LSS:
			return in.tt.Bool(x < yf)
		case token.LEQ:
			return in.tt.Bool(x <= yf)
		case token.GTR:
			return in.tt.Bool(x > yf)
		case token.GEQ:
			return in.tt.Bool(x >= yf)
		}
	case string, SymStr:
		switch op {
		case token.ADD:
			if xs, ok := x.(string); ok {
				if ys, ok := y.(string); ok {
					return xs + ys
				}
			}
			a := in.strTerms(x)
			b := in.strTerms(y)
			r := make([]*Term, 0, len(a)+len(b))
			r = append(append(r, a...), b...)
			return in.mkStr(r)
		case token.LSS, token.LEQ, token.GTR, token.GEQ:
			if xs, ok := x.(string); ok {
				if ys, ok := y.(string); ok {
					switch op {
					case token.LSS:
						return in.tt.Bool(xs < ys)
					case token.LEQ:
						return in.tt.Bool(xs <= ys)
					case token.GTR:
						return in.tt.Bool(xs > ys)
					default:
						return in.tt.Bool(xs >= ys)
					}
				}
			}
			lt, eq := in.cmpBytes(in.strTerms(x), in.strTerms(y))
			switch op {
			case token.LSS:
				return lt
			case token.LEQ:
				return in.tt.Or(lt, eq)
			case token.GTR:
				return in.tt.Not(in.tt.Or(lt, eq))
			default:
				return in.tt.Not(lt)
			}
		}
	}
	in.unsupported("binop %v on %T (%v)", op, x, t)
	return nil
}

func (in *Interp) fround(t types.Type, f float64) Value {
	if b, ok := t.Underlying().(*types.Basic); ok && b.Kind() == types.Float32 {
		return float64(float32(f))
	}
	return f
}

func (in *Interp) shift(op token.Token, x *Term, xSigned bool, y *Term, ySigned bool) Value {
	w := x.S.W
	if ySigned {
		neg := in.tt.Cmp(OSlt, y, in.tt.Const(y.S.W, 0))
		if in.branch(neg) {
			in.throw("negative shift amount")
		}
	}
	// normalise shift count to width w, saturating
	var cnt, big *Term
	if y.S.W > w {
		big = in.tt.Cmp(OUle, in.tt.Const(y.S.W, uint64(w)), y)
		cnt = in.tt.Extract(y, w-1, 0)
	} else {
		cnt = in.tt.Zext(y, w)
		big = in.tt.Cmp(OUle, in.tt.Const(w, uint64(w)), cnt)
	}
	var r, over *Term
	switch {
	case op == token.SHL:
		r = in.tt.Bin(OShl, x, cnt)
		over = in.tt.Const(w, 0)
	case xSigned:
		r = in.tt.Bin(OAshr, x, cnt)
		over = in.tt.Bin(OAshr, x, in.tt.Const(w, uint64(w-1)))
	default:
		r = in.tt.Bin(OLshr, x, cnt)
		over = in.tt.Const(w, 0)
	}
	return in.tt.Ite(big, over, r)
}

// ---- conversions ----

func (in *Interp) conv(tDst, tSrc types.Type, x Value) Value {
	ud := tDst.Underlying()
	us := tSrc.Underlying()
	switch us := us.(type) {
	case *types.Pointer:
		switch ud.(type) {
		case *types.Pointer:
			return x
		case *types.Basic:
			// unsafe.Pointer
			return x
		}
	case *types.Slice:
		switch ud := ud.(type) {
		case *types.Basic: // []byte/[]rune -> string
			s := x.(Slice)
			if isByteType(us.Elem()) {
				return in.mkStr(in.sliceBytes(s))
			}
			// []rune -> string (concrete only)
			var sb strings.Builder
			for i := 0; i < s.Len; i++ {
				r := (*s.At(i)).(*Term)
				sb.WriteRune(rune(in.concreteInt(r, true)))
			}
			return sb.String()
		case *types.Slice:
			return x
		case *types.Array:
			s := x.(Slice)
			n := int(ud.Len())
			if s.Len < n {
				in.throw("cannot convert slice to array: length too short")
			}
			arr := make(Array, n)
			for i := 0; i < n; i++ {
				arr[i] = copyVal(*s.At(i))
			}
			return arr
		case *types.Pointer:
			in.unsupported("slice to array pointer conversion via Convert")
		}
	case *types.Basic:
		if udb, ok := ud.(*types.Basic); ok {
			return in.convBasic(udb, us, x)
		}
		if uds, ok := ud.(*types.Slice); ok && us.Info()&types.IsString != 0 {
			if isByteType(uds.Elem()) {
				return in.bytesToSlice(in.strTerms(x))
			}
			// string -> []rune (concrete only)
			s, ok := x.(string)
			if !ok {
				in.unsupported("symbolic string to []rune")
			}
			var d []Value
			for _, r := range s {
				d = append(d, in.tt.Const(32, uint64(r)))
			}
			return Slice{B: &Backing{dense: d, n: len(d)}, Len: len(d), Cap: len(d)}
		}
		if _, ok := ud.(*types.Pointer); ok {
			return x // unsafe.Pointer -> *T
		}
	}
	if types.Identical(ud, us) {
		return x
	}
	in.unsupported("conversion %v -> %v", tSrc, tDst)
	return nil
}

func isByteType(t types.Type) bool {
	b, ok := t.Underlying().(*types.Basic)
	return ok && (b.Kind() == types.Uint8)
}

func (in *Interp) convBasic(dst, src *types.Basic, x Value) Value {
	di, si := dst.Info(), src.Info()
	switch {
	case si&types.IsInteger != 0 && di&types.IsInteger != 0:
		t := x.(*Term)
		dw := intWidth(dst)
		if dw <= t.S.W {
			return in.tt.Extract(t, dw-1, 0)
		}
		if si&types.IsUnsigned != 0 {
			return in.tt.Zext(t, dw)
		}
		return in.tt.Sext(t, dw)
	case si&types.IsInteger != 0 && di&types.IsFloat != 0:
		t := x.(*Term)
		v := in.concreteInt(t, si&types.IsUnsigned == 0)
		if si&types.IsUnsigned != 0 {
			return in.fround(dst, float64(uint64(v)))
		}
		return in.fround(dst, float64(v))
	case si&types.IsFloat != 0 && di&types.IsInteger != 0:
		f := x.(float64)
		dw := intWidth(dst)
		if di&types.IsUnsigned != 0 {
			return in.tt.Const(dw, uint64(f))
		}
		return in.tt.Const(dw, uint64(int64(f)))
	case si&types.IsFloat != 0 && di&types.IsFloat != 0:
		return in.fround(dst, x.(float64))
	case si&types.IsInteger != 0 && di&types.IsString != 0:
		t := x.(*Term)
		v := in.concreteInt(t, si&types.IsUnsigned == 0)
		return string(rune(v))
	case si&types.IsString != 0 && di&types.IsString != 0:
		return x
	case si&types.IsBoolean != 0 && di&types.IsBoolean != 0:
		return x
	case dst.Kind() == types.UnsafePointer || src.Kind() == types.UnsafePointer:
		if src.Kind() == types.UnsafePointer && dst.Kind() == types.UnsafePointer {
			return x
		}
		in.unsupported("unsafe.Pointer <-> integer conversion")
	case si&types.IsComplex != 0 && di&types.IsComplex != 0:
		return x
	}
	in.unsupported("convBasic %v -> %v", src, dst)
	return nil
}

// ---- type assertions ----

func (in *Interp) typeAssert(instr *ssa.TypeAssert, itf Iface) Value {
	var v Value
	err := ""
	if idst, ok := instr.AssertedType.Underlying().(*types.Interface); ok {
		v = itf
		if itf.T == nil {
			err = fmt.Sprintf("interface conversion: interface is nil, not %s", instr.AssertedType)
		} else if _, isD := itf.V.(Dummy); isD {
			// dummy satisfies everything
		} else if meth, _ := types.MissingMethod(itf.T, idst, true); meth != nil {
			err = fmt.Sprintf("interface conversion: %v is not %v: missing method %s", itf.T, idst, meth.Name())
		}
	} else if itf.T != nil && types.Identical(itf.T, instr.AssertedType) {
		v = itf.V
	} else {
		err = fmt.Sprintf("interface conversion: interface is %v, not %v", itf.T, instr.AssertedType)
	}
	if err != "" {
		if !instr.CommaOk {
			in.throw(err)
		}
		return Tuple{in.zero(instr.AssertedType), in.tt.False}
	}
	if instr.CommaOk {
		return Tuple{v, in.tt.True}
	}
	return v
}

// ---- slices ----

func (in *Interp) sliceOp(instr *ssa.Slice, x, lo, hi, max Value) Value {
	var length, capN int
	var str []*Term
	var sl Slice
	var arrPtr *Value
	isStr := false
	switch x := x.(type) {
	case string, SymStr:
		isStr = true
		str = in.strTerms(x)
		length = len(str)
		capN = length
	case Slice:
		sl = x
		length = x.Len
		capN = x.Cap
	case *Value:
		if x == nil {
			in.throw("invalid memory address or nil pointer dereference")
		}
		arrPtr = x
		length = len((*x).(Array))
		capN = length
	default:
		in.unsupported("slice of %T", x)
	}
	l := 0
	if lo != nil {
		l = int(in.concreteInt(lo.(*Term), true))
	}
	h := length
	if hi != nil {
		h = int(in.concreteInt(hi.(*Term), true))
	}
	m := capN
	if max != nil {
		m = int(in.concreteInt(max.(*Term), true))
	}
	if isStr {
		if l < 0 || h < l || h > length {
			in.throw(fmt.Sprintf("slice bounds out of range [%d:%d] with length %d", l, h, length))
		}
		return in.mkStr(str[l:h])
	}
	if l < 0 || h < l || m < h || m > capN {
		in.throw(fmt.Sprintf("slice bounds out of range [%d:%d:%d] with capacity %d", l, h, m, capN))
	}
	if arrPtr != nil {
		arr := (*arrPtr).(Array)
		// share the array's cells
		return Slice{B: &Backing{dense: arr, n: len(arr)}, Off: l, Len: h - l, Cap: m - l}
	}
	if sl.IsNil() {
		return Slice{}
	}
	return Slice{B: sl.B, Off: sl.Off + l, Len: h - l, Cap: m - l}
}

func (in *Interp) appendOp(t types.Type, a Slice, bv Value) Value {
	var add []Value
	switch b := bv.(type) {
	case Slice:
		for i := 0; i < b.Len; i++ {
			add = append(add, copyVal(*b.At(i)))
		}
	case string, SymStr:
		for _, c := range in.strTerms(b) {
			add = append(add, c)
		}
	default:
		in.unsupported("append of %T", bv)
	}
	if len(add) == 0 {
		return a
	}
	if a.Len+len(add) <= a.Cap {
		for i, v := range add {
			cell := a.B.at(a.Off + a.Len + i)
			if in.recording != nil {
				in.recordWrite(cell)
			}
			*cell = v
		}
		return Slice{B: a.B, Off: a.Off, Len: a.Len + len(add), Cap: a.Cap}
	}
	// grow (amortised doubling, like the runtime: exact capacity is unspecified)
	newCap := a.Cap * 2
	if newCap < a.Len+len(add) {
		newCap = a.Len + len(add)
	}
	d := make([]Value, newCap)
	for i := 0; i < a.Len; i++ {
		d[i] = copyVal(*a.At(i))
	}
	copy(d[a.Len:], add)
	elemT := t.Underlying().(*types.Slice).Elem()
	for i := a.Len + len(add); i < newCap; i++ {
		d[i] = in.zero(elemT)
	}
	return Slice{B: &Backing{dense: d, n: newCap}, Off: 0, Len: a.Len + len(add), Cap: newCap}
}

func (in *Interp) copyOp(dst Slice, srcv Value) int {
	var src []Value
	switch s := srcv.(type) {
	case Slice:
		n := s.Len
		if dst.Len < n {
			n = dst.Len
		}
		src = make([]Value, n)
		for i := 0; i < n; i++ {
			src[i] = copyVal(*s.At(i))
		}
	case string, SymStr:
		for _, c := range in.strTerms(s) {
			src = append(src, c)
		}
	}
	n := len(src)
	if dst.Len < n {
		n = dst.Len
	}
	for i := 0; i < n; i++ {
		cell := dst.At(i)
		if in.recording != nil {
			in.recordWrite(cell)
		}
		*cell = src[i]
	}
	return n
}

// ---- builtins ----

func (in *Interp) callBuiltin(caller *frame, callpos token.Pos, fn *ssa.Builtin, args []Value) Value {
	switch fn.Name() {
	case "append":
		if len(args) == 1 {
			return args[0]
		}
		return in.appendOp(fn.Type().(*types.Signature).Results().At(0).Type(), args[0].(Slice), args[1])
	case "copy":
		return in.tt.Const(64, uint64(in.copyOp(args[0].(Slice), args[1])))
	case "close":
		c := args[0].(*Chan)
		if c == nil {
			in.throw("close of nil channel")
		}
		if c.closed {
			in.throw("close of closed channel")
		}
		c.closed = true
		return nil
	case "delete":
		m := args[0].(*Map)
		if m != nil {
			in.mapDelete(m, args[1])
		}
		return nil
	case "print", "println":
		return nil
	case "len":
		switch x := args[0].(type) {
		case string:
			return in.tt.Const(64, uint64(len(x)))
		case SymStr:
			return in.tt.Const(64, uint64(len(x.B)))
		case Array:
			return in.tt.Const(64, uint64(len(x)))
		case *Value:
			return in.tt.Const(64, uint64(len((*x).(Array))))
		case Slice:
			return in.tt.Const(64, uint64(x.Len))
		case *Map:
			if x == nil {
				return in.tt.Const(64, 0)
			}
			return in.mapLen(x)
		case *Chan:
			if x == nil {
				return in.tt.Const(64, 0)
			}
			return in.tt.Const(64, uint64(len(x.buf)))
		}
	case "cap":
		switch x := args[0].(type) {
		case Array:
			return in.tt.Const(64, uint64(len(x)))
		case *Value:
			return in.tt.Const(64, uint64(len((*x).(Array))))
		case Slice:
			return in.tt.Const(64, uint64(x.Cap))
		case *Chan:
			return in.tt.Const(64, uint64(x.cap))
		}
	case "min", "max":
		r := args[0]
		for _, a := range args[1:] {
			switch x := r.(type) {
			case *Term:
				y := a.(*Term)
				signed := isSigned(fn.Type().(*types.Signature).Params().At(0).Type())
				var lt *Term
				if signed {
					lt = in.tt.Cmp(OSlt, x, y)
				} else {
					lt = in.tt.Cmp(OUlt, x, y)
				}
				if fn.Name() == "min" {
					r = in.tt.Ite(lt, x, y)
				} else {
					r = in.tt.Ite(lt, y, x)
				}
			case float64:
				if fn.Name() == "min" {
					r = math.Min(x, a.(float64))
				} else {
					r = math.Max(x, a.(float64))
				}
			default:
				in.unsupported("min/max of %T", r)
			}
		}
		return r
	case "clear":
		switch x := args[0].(type) {
		case *Map:
			if x != nil {
				x.entries = nil
				x.index = map[string]*mapEntry{}
				x.live = 0
				x.symKeys = 0
			}
		case Slice:
			in.unsupported("clear(slice)")
		}
		return nil
	case "panic":
		panic(targetPanic{v: args[0], msg: in.panicString(args[0]), pos: in.posStr(callpos)})
	case "recover":
		return in.doRecover(caller)
	case "ssa:wrapnilchk":
		recv := args[0]
		if p, ok := recv.(*Value); ok && p == nil {
			in.throw(fmt.Sprintf("value method %s.%s called using nil pointer", in.strOf(args[1]), in.strOf(args[2])))
		}
		return recv
	}
	in.unsupported("builtin %s on %T", fn.Name(), firstOrNil(args))
	return nil
}

func firstOrNil(a []Value) Value {
	if len(a) > 0 {
		return a[0]
	}
	return nil
}

func (in *Interp) strOf(v Value) string {
	if s, ok := v.(string); ok {
		return s
	}
	return "?"
}

func (in *Interp) doRecover(caller *frame) Value {
	if caller != nil && !caller.panicking && caller.caller != nil && caller.caller.panicking {
		caller.caller.panicking = false
		p := caller.caller.panic
		caller.caller.panic = nil
		switch p := p.(type) {
		case targetPanic:
			return p.v
		default:
			panic(p)
		}
	}
	return Iface{}
}

// ---- maps ----

func (in *Interp) mapFind(m *Map, k Value) *mapEntry {
	if ks, ok := concreteKey(k); ok {
		if e, hit := m.index[ks]; hit && !e.deleted {
			return e
		}
		if m.lazy != "" {
			// adversary-controlled map: any key that is looked up is present with a free digest value
			d := in.freeDigest(m.lazy + "[" + in.lazyKeyName(k) + "]")
			e := &mapEntry{k: copyVal(k), v: d, kstr: ks}
			m.index[ks] = e
			m.entries = append(m.entries, e)
			m.live++
			return e
		}
		if m.symKeys == 0 {
			return nil
		}
		// compare against symbolic keys
		for _, e := range m.entries {
			if e.deleted || e.kstr != "" {
				continue
			}
			if in.branch(in.eqValue(e.k, k)) {
				return e
			}
		}
		return nil
	}
	for _, e := range m.entries {
		if e.deleted {
			continue
		}
		if in.branch(in.eqValue(e.k, k)) {
			return e
		}
	}
	return nil
}

func (in *Interp) mapInsert(m *Map, k, v Value) {
	if e := in.mapFind(m, k); e != nil {
		e.v = copyVal(v)
		return
	}
	e := &mapEntry{k: copyVal(k), v: copyVal(v)}
	if ks, ok := concreteKey(k); ok {
		e.kstr = ks
		m.index[ks] = e
	} else {
		m.symKeys++
	}
	m.entries = append(m.entries, e)
	m.live++
}

func (in *Interp) mapDelete(m *Map, k Value) {
	if e := in.mapFind(m, k); e != nil {
		e.deleted = true
		m.live--
		if e.kstr != "" {
			delete(m.index, e.kstr)
		} else {
			m.symKeys--
		}
	}
}

func (in *Interp) mapLen(m *Map) Value {
	if m.lazy != "" {
		return in.tt.Const(64, uint64(m.lazySize))
	}
	return in.tt.Const(64, uint64(m.live))
}

// lazyKeyName renders a concrete map key for input naming (strings as is, byte arrays as hex).
func (in *Interp) lazyKeyName(k Value) string {
	switch k := k.(type) {
	case string:
		return k
	case Array:
		var sb strings.Builder
		for _, b := range k {
			fmt.Fprintf(&sb, "%02x", b.(*Term).Val)
		}
		return sb.String()
	}
	return fmt.Sprint(k)
}

// freeDigest creates a free value of the digest sort as a []byte slice (input kind "digest").
func (in *Interp) freeDigest(name string) Value {
	name = in.newInputName(name)
	if in.hashLen == 0 {
		in.unsupported("free digest before rt.SetDigestLen")
	}
	if in.cfg.Concrete != nil {
		var raw []byte
		if iv, ok := in.cfg.Concrete[name]; ok {
			memo, _ := in.scratch["digestMemo"].(map[string][]byte)
			if memo == nil {
				memo = map[string][]byte{}
				in.scratch["digestMemo"] = memo
			}
			raw = evalDigestExprL(iv.Value, in.hashLen, func(n string) (string, bool) {
				v, ok := in.cfg.Concrete[n]
				return v.Value, ok
			}, memo)
		} else {
			s := sha256.Sum256([]byte("fresh:" + name))
			raw = s[:in.hashLen]
		}
		ts := make([]*Term, in.hashLen)
		for i := range ts {
			ts[i] = in.tt.byteC[raw[i]]
		}
		return in.bytesToSlice(ts)
	}
	d := in.tt.Var(smtName(name)+"_D", DSort)
	inp := &Input{Name: name, Kind: "digest", T: []*Term{d}}
	in.digestInputs = append(in.digestInputs, inp)
	return in.bytesToSlice(in.digestBytes(d))
}

func (in *Interp) lookup(instr *ssa.Lookup, x, idx Value) Value {
	switch x := x.(type) {
	case *Map:
		var v Value
		ok := false
		if x != nil {
			if e := in.mapFind(x, idx); e != nil {
				v = copyVal(e.v)
				ok = true
			}
		}
		if !ok {
			v = in.zero(instr.X.Type().Underlying().(*types.Map).Elem())
		}
		if instr.CommaOk {
			return Tuple{v, in.tt.Bool(ok)}
		}
		return v
	case string, SymStr:
		bs := in.strTerms(x)
		it := idx.(*Term)
		if it.IsConst() {
			i := in.checkIndex(it, instr.Index.Type(), len(bs))
			return bs[i]
		}
		return in.symIndexBytes(bs, it, instr.Index.Type())
	}
	in.unsupported("lookup on %T", x)
	return nil
}

// ---- iteration ----

type iterator interface {
	next(in *Interp) Tuple
}

type mapIter struct {
	m    *Map
	i    int
	keyT types.Type
	valT types.Type
}

func (it *mapIter) next(in *Interp) Tuple {
	for it.m != nil && it.i < len(it.m.entries) {
		e := it.m.entries[it.i]
		it.i++
		if e.deleted {
			continue
		}
		return Tuple{in.tt.True, copyVal(e.k), copyVal(e.v)}
	}
	return Tuple{in.tt.False, in.zero(it.keyT), in.zero(it.valT)}
}

type strIter struct {
	s string
	i int
}

func (it *strIter) next(in *Interp) Tuple {
	if it.i >= len(it.s) {
		return Tuple{in.tt.False, in.tt.Const(64, 0), in.tt.Const(32, 0)}
	}
	r, sz := utf8.DecodeRuneInString(it.s[it.i:])
	res := Tuple{in.tt.True, in.tt.Const(64, uint64(it.i)), in.tt.Const(32, uint64(r))}
	it.i += sz
	return res
}

func (in *Interp) rangeIter(x Value, t types.Type) iterator {
	switch x := x.(type) {
	case *Map:
		mt := t.Underlying().(*types.Map)
		if x != nil && x.lazy != "" {
			in.unsupported("range over an adversary-controlled (lazy) map")
		}
		return &mapIter{m: x, keyT: mt.Key(), valT: mt.Elem()}
	case string:
		return &strIter{s: x}
	case SymStr:
		// treat symbolic strings as ASCII only if every byte is < 0x80 is provable? Keep simple:
		in.unsupported("range over symbolic string")
	}
	in.unsupported("range over %T", x)
	return nil
}

// ---- channels (single-threaded model) ----

func (in *Interp) chanSend(c *Chan, v Value) {
	if c == nil {
		in.abort("blocked", "send on nil channel")
	}
	if c.closed {
		in.throw("send on closed channel")
	}
	// unbuffered channels are modelled as capacity-unbounded queues drained by the receiver later
	c.buf = append(c.buf, copyVal(v))
}

func (in *Interp) chanRecv(c *Chan, commaOk bool) Value {
	if c == nil {
		in.blocked("receive on nil channel")
	}
	if len(c.buf) > 0 {
		v := c.buf[0]
		c.buf = c.buf[1:]
		if commaOk {
			return Tuple{v, in.tt.True}
		}
		return v
	}
	if c.closed {
		z := in.zero(c.elemT)
		if commaOk {
			return Tuple{z, in.tt.False}
		}
		return z
	}
	in.blocked("receive on empty channel")
	return nil
}

func (in *Interp) blocked(why string) {
	in.abort("blocked", "%s at %s", why, in.posStr(in.curPos))
}

func (in *Interp) selectOp(fr *frame, instr *ssa.Select) Value {
	// collect ready cases
	type cand struct{ idx int }
	var ready []int
	for i, st := range instr.States {
		c := fr.get(st.Chan).(*Chan)
		if c == nil {
			continue
		}
		if st.Dir == types.RecvOnly {
			if len(c.buf) > 0 || c.closed {
				ready = append(ready, i)
			}
		} else {
			ready = append(ready, i)
		}
	}
	chosen := -1
	if len(ready) == 0 {
		if instr.Blocking {
			in.blocked("select with no ready case")
		}
	} else if len(ready) == 1 {
		chosen = ready[0]
	} else {
		k := in.choose("select@"+in.posStr(instr.Pos()), len(ready))
		chosen = ready[k]
	}
	recvOk := false
	var recvVal Value
	if chosen >= 0 {
		st := instr.States[chosen]
		c := fr.get(st.Chan).(*Chan)
		if st.Dir == types.RecvOnly {
			if len(c.buf) > 0 {
				recvVal = c.buf[0]
				c.buf = c.buf[1:]
				recvOk = true
			}
		} else {
			in.chanSend(c, fr.get(st.Send))
		}
	}
	r := Tuple{in.tt.Const(64, uint64(int64(chosen))), in.tt.Bool(recvOk)}
	for i, st := range instr.States {
		if st.Dir == types.RecvOnly {
			var v Value
			if i == chosen && recvOk {
				v = recvVal
			} else {
				v = in.zero(st.Chan.Type().Underlying().(*types.Chan).Elem())
			}
			r = append(r, v)
		}
	}
	return r
}

// findMethod looks up an exported method by name in the method set of t (nil if absent).
func (in *Interp) findMethod(t types.Type, name string) *ssa.Function {
	ms := in.prog.MethodSets.MethodSet(t)
	for i := 0; i < ms.Len(); i++ {
		sel := ms.At(i)
		if sel.Obj().Name() == name && sel.Obj().Exported() {
			return in.prog.MethodValue(sel)
		}
	}
	return nil
}
