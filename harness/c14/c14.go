// Package c14: each store back-end behaves as an atomic, ordered, per-table map.
// bplus half: the real BPlusTreeStore (and the real google/btree code under it)
// against the store model, on symbolic operation sequences.
package c14

import (
	"bytes"
	"fmt"

	"github.com/bbva/qed/storage"
	"github.com/bbva/qed/storage/bplus"
	"github.com/bbva/qed/zzverif/models"
	"github.com/bbva/qed/zzverif/rt"
)

var tables = []storage.Table{storage.HyperTable, storage.HyperCacheTable, storage.HistoryTable, storage.FSMStateTable, storage.DefaultTable}

// key bytes range over values at the byte-order extremes plus one in the middle
var alphabet = []byte{0x00, 0x01, 0x7f, 0xff}

func symKey(name string) []byte {
	n := rt.Choose(name+"-len", rt.Param("KEYLEN", 2)+1)
	k := rt.Bytes(name, n)
	for _, b := range k {
		ok := false
		for _, a := range alphabet[:rt.Param("ALPHA", 3)] {
			ok = ok || b == a
		}
		rt.Assume(ok)
	}
	return k
}

func symTable(name string) storage.Table {
	return tables[rt.Choose(name, rt.Param("TABLES", 3))]
}

func sameKV(a, b *storage.KVPair, label string) {
	rt.Assert((a == nil) == (b == nil), label+":same-presence")
	if a == nil || b == nil {
		return
	}
	rt.Assert(bytes.Equal(a.Key, b.Key), label+":same-key")
	rt.Assert(bytes.Equal(a.Value, b.Value), label+":same-value")
}

func readAll(r storage.KVPairReader, buf int) []*storage.KVPair {
	var out []*storage.KVPair
	for i := 0; i < 16; i++ {
		b := make([]*storage.KVPair, buf)
		n, err := r.Read(b)
		if n == 0 || err != nil {
			break
		}
		out = append(out, b[:n]...)
	}
	r.Close()
	return out
}

func BPlus() { Run(bplus.NewBPlusTreeStore()) }

// Run is the differential check of any storage.Store against the model.
func Run(real storage.Store) {
	model := models.NewMemStore()
	// phase 1: up to WRITES entries written in batches of 1..BATCH mutations
	writes := 1 + rt.Choose("writes", rt.Param("WRITES", 3))
	w := 0
	for w < writes {
		m := 1 + rt.Choose(fmt.Sprintf("batch@%d", w), rt.Param("BATCH", 2))
		if w+m > writes {
			m = writes - w
		}
		var ms, cp []*storage.Mutation
		for j := 0; j < m; j++ {
			x := &storage.Mutation{Table: symTable(fmt.Sprintf("t%d", w+j)), Key: symKey(fmt.Sprintf("k%d", w+j)), Value: rt.Bytes(fmt.Sprintf("v%d", w+j), 1)}
			ms = append(ms, x)
			cp = append(cp, &storage.Mutation{Table: x.Table, Key: append([]byte{}, x.Key...), Value: append([]byte{}, x.Value...)})
		}
		rt.Assert(real.Mutate(ms, nil) == nil, "mutate-ok")
		model.Mutate(cp, nil)
		w += m
	}
	// phase 2: every kind of read on a symbolic table, compared with the model
	t := symTable("read-table")
	{
		k := symKey("get-key")
		var a *storage.KVPair
		var err error
		if !rt.NoPanic(func() { a, err = real.Get(t, k) }, "get") {
			return
		}
		b, errM := model.Get(t, k)
		rt.Assert((err == nil) == (errM == nil), "get:same-outcome")
		if err == nil && errM == nil {
			rt.Assert(bytes.Equal(a.Value, b.Value), "get:last-value-written")
		} else if err != nil {
			rt.Assert(err == storage.ErrKeyNotFound, "get:not-found-error")
		}
	}
	{
		s, e := symKey("range-start"), symKey("range-end")
		var a storage.KVRange
		if !rt.NoPanic(func() { a, _ = real.GetRange(t, s, e) }, "get-range") {
			return
		}
		b, _ := model.GetRange(t, s, e)
		rt.Assert(len(a) == len(b), "range:same-number-of-keys")
		if len(a) == len(b) {
			for j := range a {
				sameKV(&a[j], &b[j], "range")
			}
		}
	}
	{
		buf := 1 + rt.Choose("scan-buffer", 2)
		var a []*storage.KVPair
		if !rt.NoPanic(func() { a = readAll(real.GetAll(t), buf) }, "get-all") {
			return
		}
		b := readAll(model.GetAll(t), buf)
		rt.Assert(len(a) == len(b), "scan:every-entry-of-the-table-once")
		if len(a) == len(b) {
			for j := range a {
				sameKV(a[j], b[j], "scan")
			}
		}
	}
	{
		var a *storage.KVPair
		var err error
		if !rt.NoPanic(func() { a, err = real.GetLast(t) }, "get-last") {
			return
		}
		b, errM := model.GetLast(t)
		rt.Assert((err == nil) == (errM == nil), "last:same-outcome")
		if err == nil && errM == nil {
			sameKV(a, b, "last")
		}
	}
}

// Twin: reachability witness.
func Twin() {
	real := bplus.NewBPlusTreeStore()
	real.Mutate([]*storage.Mutation{{Table: storage.HistoryTable, Key: []byte{1}, Value: []byte{2}}}, nil)
	kv, err := real.Get(storage.HistoryTable, []byte{1})
	rt.Assert(err != nil || kv.Value[0] != 2, "twin")
}
