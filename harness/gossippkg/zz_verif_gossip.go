//go:build verif

package gossip

// In-package harnesses for C18. Injected by overlay only.

import (
	"context"
	"errors"
	"fmt"
	"io"
	"io/ioutil"
	"net"
	"strconv"
	"sync"
	"time"

	"github.com/bbva/qed/crypto/hashing"
	"github.com/bbva/qed/log"
	"github.com/bbva/qed/protocol"
	"github.com/bbva/qed/zzverif/rt"
	"github.com/hashicorp/go-msgpack/codec"
	"github.com/hashicorp/memberlist"
	"github.com/prometheus/client_golang/prometheus"
)

// ---- environment stubs (targets of engine redirects; natively the real ones run) ----

var (
	zzSends []uint16 // destination ports of the messages handed to the transport
	zzEncW  io.Writer
	zzTr    *zzTransport
)

// engine side: recorder for (*memberlist.Memberlist).SendReliable
func zzSendReliable(m *memberlist.Memberlist, to *memberlist.Node, msg []byte) error {
	zzSends = append(zzSends, to.Port)
	return nil
}

func zzMessageEncode(m *Message) ([]byte, error) { return []byte{1}, nil }

// native side: a real memberlist over a transport that records every dial.
type zzTransport struct {
	dials []string
	pch   chan *memberlist.Packet
	sch   chan net.Conn
}

func (t *zzTransport) FinalAdvertiseAddr(ip string, port int) (net.IP, int, error) {
	return net.ParseIP("127.0.0.1"), 7946, nil
}
func (t *zzTransport) WriteTo(b []byte, addr string) (time.Time, error) { return time.Now(), nil }
func (t *zzTransport) PacketCh() <-chan *memberlist.Packet              { return t.pch }
func (t *zzTransport) DialTimeout(addr string, d time.Duration) (net.Conn, error) {
	t.dials = append(t.dials, addr)
	return nil, errors.New("recorded")
}
func (t *zzTransport) StreamCh() <-chan net.Conn { return t.sch }
func (t *zzTransport) Shutdown() error           { return nil }

func zzNewMemberlist() *memberlist.Memberlist {
	if rt.Symbolic() {
		return &memberlist.Memberlist{}
	}
	zzTr = &zzTransport{pch: make(chan *memberlist.Packet), sch: make(chan net.Conn)}
	conf := memberlist.DefaultLocalConfig()
	conf.Name = "self"
	conf.Transport = zzTr
	conf.LogOutput = ioutil.Discard
	m, err := memberlist.Create(conf)
	if err != nil {
		panic(err)
	}
	return m
}

// zzCollectSends: ports of the destinations a message was handed to.
func zzCollectSends() []uint16 {
	if rt.Symbolic() {
		return zzSends
	}
	var out []uint16
	for _, d := range zzTr.dials {
		_, ps, _ := net.SplitHostPort(d)
		p, _ := strconv.Atoi(ps)
		out = append(out, uint16(p))
	}
	return out
}

// zzShuffle: any permutation (one symbolic choice per position).
func zzShuffle(n int, swap func(i, j int)) {
	for i := n - 1; i > 0; i-- {
		j := rt.Choose(fmt.Sprintf("shuffle%d", i), i+1)
		swap(i, j)
	}
}

func zzNewEncoder(w io.Writer, h codec.Handle) *codec.Encoder {
	zzEncW = w
	return &codec.Encoder{}
}

// zzEncode: the codec contract for a batch: equal batches <-> equal bytes.
func zzEncode(e *codec.Encoder, v interface{}) error {
	var out []byte
	if m, isMsg := v.(*Message); isMsg {
		// canonical bytes of a whole message: every exported field contributes
		out = append(out, byte(m.Kind), byte(m.TTL), byte(m.TTL>>8))
		if m.From != nil {
			out = append(out, byte(len(m.From.Name)))
			out = append(out, m.From.Name...)
		} else {
			out = append(out, 0xff)
		}
		out = append(out, m.Payload...)
		_, err := zzEncW.Write(out)
		return err
	}
	ss, ok := v.([]*protocol.SignedSnapshot)
	if !ok {
		return errors.New("unsupported")
	}
	for _, s := range ss {
		out = append(out, byte(len(s.Signature)))
		out = append(out, s.Signature...)
		if s.Snapshot != nil {
			out = append(out, byte(s.Snapshot.Version))
			out = append(out, byte(len(s.Snapshot.EventDigest)))
			out = append(out, s.Snapshot.EventDigest...)
			out = append(out, byte(len(s.Snapshot.HistoryDigest)))
			out = append(out, s.Snapshot.HistoryDigest...)
			out = append(out, byte(len(s.Snapshot.HyperDigest)))
			out = append(out, s.Snapshot.HyperDigest...)
		}
	}
	_, err := zzEncW.Write(out)
	return err
}

func zzSha256Hasher() hashing.Hasher { return rt.NewHasher(256) }

type zzCache struct {
	keys [][]byte
	gets int
	sets int
}

func (c *zzCache) Get(key []byte) ([]byte, error) {
	c.gets++
	for _, k := range c.keys {
		if string(k) == string(key) {
			return []byte{1}, nil
		}
	}
	return nil, errors.New("not found")
}

func (c *zzCache) Set(key, value []byte, exp int) error {
	c.sets++
	c.keys = append(c.keys, append([]byte{}, key...))
	return nil
}

// ---- helpers ----

var zzNames = []string{"self", "p1", "p2", "p3", "p4"}
var zzRoles = []string{"auditor", "monitor", "publisher"}

func zzAgent() *Agent {
	self := &Peer{Name: "self", Port: 1, Meta: Meta{Role: zzRoles[rt.Choose("self-role", rt.Param("ROLES", 2))]}}
	zzSends = nil
	a := &Agent{Self: self, topology: NewTopology(), gossip: zzNewMemberlist(), log: log.L()}
	return a
}

func zzPeer(i int) *Peer {
	name := zzNames[rt.Choose(fmt.Sprintf("name%d", i), rt.Param("NAMES", 4))]
	role := zzRoles[rt.Choose(fmt.Sprintf("role%d", i), rt.Param("ROLES", 2))]
	return &Peer{Name: name, Port: uint16(10 + i), Meta: Meta{Role: role}}
}

func zzCheckTopology(t *Topology, label string) {
	for role, l := range t.m {
		seen := map[string]int{}
		for _, p := range l.L {
			rt.Assert(p != nil, label+":no-nil-peer")
			if p == nil {
				continue
			}
			seen[p.Name]++
			rt.Assert(seen[p.Name] == 1, label+":each-name-once-per-role")
			rt.Assert(p.Meta.Role == role, label+":peer-listed-under-its-role")
		}
	}
}

// ZZC18TTL: every hop lowers the TTL and an exhausted TTL is never sent on.
func ZZC18TTL() {
	a := zzAgent()
	a.topology.Update(a.Self)
	n := 1 + rt.Choose("peers", rt.Param("PEERS", 2))
	for i := 0; i < n; i++ {
		a.topology.Update(zzPeer(i))
	}
	ttl := rt.Int("ttl")
	msg := &Message{Kind: BatchMessageType, TTL: ttl, Payload: []byte{1}, From: &Peer{Name: "p1"}}
	if !rt.NoPanic(func() { a.Send(msg) }, "send") {
		return
	}
	sends := zzCollectSends()
	for _, port := range sends {
		// the message object is decremented in place before it is encoded and sent
		rt.Assert(ttl > 0, "exhausted-ttl-is-never-sent-on")
		rt.Assert(msg.TTL < ttl, "hop-lowers-ttl")
		rt.Assert(msg.TTL >= 0, "sent-ttl-non-negative")
		rt.Assert(port != a.Self.Port, "never-self-addressed")
	}
	rt.Cover(len(sends) > 0, "something-sent")
	rt.Cover(len(sends) == 0, "nothing-sent")
}

// ZZC18Route: routing never selects self, selects at most one peer per role, never panics.
func ZZC18Route() {
	a := zzAgent()
	steps := 1 + rt.Choose("steps", rt.Param("STEPS", 3))
	for i := 0; i < steps; i++ {
		p := zzPeer(i)
		if rt.Choose(fmt.Sprintf("op%d", i), 2) == 0 {
			rt.NoPanic(func() { a.topology.Update(p) }, "topology-update")
		} else {
			rt.NoPanic(func() { a.topology.Delete(p) }, "topology-delete")
		}
		zzCheckTopology(a.topology, "after-step")
	}
	var dst []*memberlist.Node
	src := &Peer{Name: zzNames[rt.Choose("src", rt.Param("NAMES", 4))]}
	if !rt.NoPanic(func() { dst = a.route(src) }, "route") {
		return
	}
	perRole := map[string]int{}
	for _, d := range dst {
		rt.Assert(d.Name != "self", "never-routes-to-self")
		rt.Assert(d.Name != src.Name, "never-routes-back-to-source")
		for role, l := range a.topology.m {
			for _, p := range l.L {
				if p.Name == d.Name && p.Port == d.Port {
					perRole[role]++
				}
			}
		}
	}
	for role, k := range perRole {
		_ = role
		rt.Assert(k <= 1, "at-most-one-peer-per-role")
	}
	zzCheckTopology(a.topology, "after-route")
	rt.Cover(len(dst) > 0, "routed")
}

// ---- the processor loop, driven through its public Subscribe API ----

var zzBatches []*protocol.BatchSnapshots

// codec contracts for the JSON payload of a batch message (engine redirects; natively real JSON)
func zzJSONMarshal(v interface{}) ([]byte, error) {
	if b, ok := v.(*protocol.BatchSnapshots); ok {
		for i, x := range zzBatches {
			if x == b {
				return []byte{0xb0, byte(i)}, nil
			}
		}
	}
	return nil, errors.New("json contract: unsupported value")
}

func zzJSONUnmarshal(data []byte, v interface{}) error {
	b, ok := v.(*protocol.BatchSnapshots)
	if !ok || len(data) != 2 || data[0] != 0xb0 || int(data[1]) >= len(zzBatches) {
		return errors.New("json contract: undecodable")
	}
	src := zzBatches[data[1]]
	b.Snapshots = nil
	for _, s := range src.Snapshots {
		b.Snapshots = append(b.Snapshots, &protocol.SignedSnapshot{
			Snapshot: &protocol.Snapshot{Version: s.Snapshot.Version, EventDigest: append([]byte{}, s.Snapshot.EventDigest...),
				HistoryDigest: append([]byte{}, s.Snapshot.HistoryDigest...), HyperDigest: append([]byte{}, s.Snapshot.HyperDigest...)},
			Signature: append([]byte{}, s.Signature...),
		})
	}
	return nil
}

func zzWithValue(parent context.Context, key, val interface{}) context.Context { return parent }

type zzTasks struct{ added int }

func (t *zzTasks) Start()              {}
func (t *zzTasks) Stop()               {}
func (t *zzTasks) Add(task Task) error { t.added++; return nil }
func (t *zzTasks) Len() int            { return t.added }

type zzFactory struct{ news int }

func (f *zzFactory) New(ctx context.Context) Task {
	f.news++
	return func() error { return nil }
}
func (f *zzFactory) Metrics() []prometheus.Collector { return nil }

// ZZC18Loop: an agent runs its tasks for a given batch at most once, however many times, from
// however many peers and with whatever remaining TTL the batch arrives.
func ZZC18Loop() {
	cache := &zzCache{}
	tasks := &zzTasks{}
	fac := &zzFactory{}
	a := &Agent{Self: &Peer{Name: "self"}, Cache: cache, Tasks: tasks, log: log.L()}
	a.Out.log = log.L()
	d := NewBatchProcessor(a, []TaskFactory{fac}, log.L())
	nb := 1 + rt.Choose("batches", rt.Param("BATCHES", 3))
	zzBatches = nil
	for i := 0; i < nb; i++ {
		sn := &protocol.Snapshot{Version: uint64(i), EventDigest: []byte{byte(i), 7}, HistoryDigest: []byte{byte(i), 8}, HyperDigest: []byte{byte(i), 9}}
		sig := []byte{byte(i + 1)}
		if i == 2 {
			// the third batch is the first one with one digest altered — same version, same signature:
			// a different batch, whose tasks must run (that is how an altered snapshot gets noticed)
			sn.Version, sig = 0, []byte{1}
			sn.EventDigest, sn.HistoryDigest, sn.HyperDigest = []byte{0, 7}, []byte{0, 8}, []byte{0, 9}
			switch rt.Choose("altered-digest", 3) {
			case 0:
				sn.EventDigest = []byte{0xee, 7}
			case 1:
				sn.HistoryDigest = []byte{0xee, 8}
			case 2:
				sn.HyperDigest = []byte{0xee, 9}
			}
		}
		zzBatches = append(zzBatches, &protocol.BatchSnapshots{Snapshots: []*protocol.SignedSnapshot{{Snapshot: sn, Signature: sig}}})
	}
	deliveries := 1 + rt.Choose("deliveries", rt.Param("DELIV", 4))
	ch := make(chan *Message, 16)
	distinct := map[int]bool{}
	for k := 0; k < deliveries; k++ {
		i := rt.Choose(fmt.Sprintf("which%d", k), nb)
		payload, err := zzBatches[i].Encode()
		if err != nil {
			panic(err)
		}
		// the same batch reaches the agent over paths of different length and from different peers
		ch <- &Message{Kind: BatchMessageType, TTL: 1 + rt.Choose(fmt.Sprintf("ttl%d", k), rt.Param("TTLS", 2)), From: &Peer{Name: zzNames[1+rt.Choose(fmt.Sprintf("from%d", k), rt.Param("FROMS", 2))]}, Payload: payload}
		distinct[i] = true
	}
	check := func() {
		rt.Assert(fac.news == len(distinct), "tasks-created-once-per-distinct-batch")
		rt.Assert(tasks.added == len(distinct), "tasks-enqueued-once-per-distinct-batch")
	}
	if rt.Symbolic() {
		rt.OnBlocked(check) // the processor loop runs until it blocks on the drained channel
		d.Subscribe(0, ch)
		return
	}
	d.Subscribe(0, ch)
	for i := 0; i < 400 && len(ch) > 0; i++ {
		time.Sleep(5 * time.Millisecond)
	}
	time.Sleep(100 * time.Millisecond)
	d.Stop()
	check()
}

// ZZC18Locks: every access to the topology map happens with the topology lock held.
func ZZC18Locks() {
	a := zzAgent()
	a.topology.Update(zzPeer(0))
	rt.GuardedBy(&a.topology.m, a.topology, "Topology.m") // the lock is the mutex embedded in the topology
	switch rt.Choose("op", 4) {
	case 0:
		a.topology.Update(zzPeer(1))
	case 1:
		a.topology.Delete(&Peer{Name: "p1", Meta: Meta{Role: zzRoles[0]}})
	case 2:
		a.topology.Get(zzRoles[0])
	case 3:
		a.route(&Peer{Name: "p2"})
	}
	rt.Unguard()
}

// ZZC18LocksRace is the native witness for a lockset finding: run the same
// operations from two goroutines (meaningful only in a -race build).
func ZZC18LocksRace() {
	a := &Agent{Self: &Peer{Name: "self", Meta: Meta{Role: "auditor"}}, topology: NewTopology(), log: log.L()}
	var wg sync.WaitGroup
	wg.Add(2)
	go func() {
		defer wg.Done()
		for i := 0; i < 200; i++ {
			a.topology.Update(&Peer{Name: fmt.Sprintf("p%d", i%3), Meta: Meta{Role: zzRoles[i%3]}})
		}
	}()
	go func() {
		defer wg.Done()
		for i := 0; i < 200; i++ {
			var ex PeerList
			a.topology.Each(1, &ex)
		}
	}()
	wg.Wait()
}

// ZZC18Concurrent: an agent runs several sends at once (Agent.sender starts up to MaxSenders
// goroutines), each making a routing decision, while membership events arrive. Two such
// activities must not write a common memory cell unless both hold a common lock exclusively.
func ZZC18Concurrent() {
	a := zzAgent()
	for i := 0; i < 4; i++ {
		a.topology.Update(zzPeer(i))
	}
	a.topology.Update(&Peer{Name: "q0", Meta: Meta{Role: zzRoles[1]}})
	a.topology.Update(&Peer{Name: "q1", Meta: Meta{Role: zzRoles[1]}})
	src := &Peer{Name: "p2"}
	switch rt.Choose("pair", 3) {
	case 0:
		rt.SharedWrites(func() { a.route(src) }, func() { a.route(a.Self) }, "concurrent-routing")
	case 1:
		rt.SharedWrites(func() { a.route(src) }, func() { a.topology.Update(&Peer{Name: "q2", Meta: Meta{Role: zzRoles[1]}}) }, "routing-vs-join")
	case 2:
		rt.SharedWrites(func() { a.route(src) }, func() { a.topology.Delete(&Peer{Name: "q1", Meta: Meta{Role: zzRoles[1]}}) }, "routing-vs-leave")
	}
}

// ZZC18ConcurrentRace: native witness for a finding of ZZC18Concurrent (meaningful in a -race build).
func ZZC18ConcurrentRace() {
	a := &Agent{Self: &Peer{Name: "self", Meta: Meta{Role: "auditor"}}, topology: NewTopology(), log: log.L()}
	for i := 0; i < 6; i++ {
		a.topology.Update(&Peer{Name: fmt.Sprintf("m%d", i), Meta: Meta{Role: "monitor"}})
		a.topology.Update(&Peer{Name: fmt.Sprintf("u%d", i), Meta: Meta{Role: "publisher"}})
	}
	var wg sync.WaitGroup
	for g := 0; g < 4; g++ {
		wg.Add(1)
		go func(g int) {
			defer wg.Done()
			for i := 0; i < 300; i++ {
				if g == 3 {
					p := &Peer{Name: "flap", Meta: Meta{Role: "monitor"}}
					a.topology.Update(p)
					a.topology.Delete(p)
					continue
				}
				a.route(a.Self)
			}
		}(g)
	}
	wg.Wait()
}

// ZZC18Twin: reachability witness.
func ZZC18Twin() {
	a := zzAgent()
	a.topology.Update(&Peer{Name: "p1", Meta: Meta{Role: "auditor"}})
	a.Send(&Message{TTL: 2, From: &Peer{Name: "p2"}})
	rt.Assert(len(zzCollectSends()) == 0, "twin")
}

// ZZNewAgentWithBus: an agent reduced to its message buses (for harnesses in other packages).
func ZZNewAgentWithBus() *Agent {
	a := &Agent{Self: &Peer{Name: "self"}, log: log.L()}
	a.Out.log = log.L()
	a.In.log = log.L()
	return a
}
