package smoke

import (
	"bytes"
	"fmt"
	"sort"
	"strconv"
	"strings"

	"github.com/bbva/qed/util"
	"github.com/bbva/qed/zzverif/rt"
)

func Arith() {
	x := rt.U64("x")
	y := rt.U64("y")
	rt.Assume(x < 100)
	rt.Assume(y < 100)
	rt.Assert(x+y < 200, "sum-bound")
	rt.Assert(x+y < 150, "sum-bound-wrong")
	b := util.Uint64AsBytes(x)
	rt.Assert(util.BytesAsUint64(b) == x, "roundtrip")
	if x > y {
		rt.Reach("gt")
		rt.Assert(x-y > 0, "diff-pos")
	} else {
		rt.Reach("le")
	}
	m := map[string]int{}
	m["a"] = int(x)
	m[fmt.Sprintf("k%d", 3)] = 7
	rt.Assert(m["k3"] == 7, "map")
	s := []int{3, 1, 2}
	sort.Ints(s)
	rt.Assert(s[0] == 1 && s[2] == 3, "sort")
	n, err := strconv.Atoi("123")
	rt.Assert(err == nil && n == 123, "atoi")
	parts := strings.Split("12|5", "|")
	rt.Assert(len(parts) == 2 && parts[1] == "5", "split")
	bb := rt.Bytes("bb", 2)
	if bytes.Compare(bb, []byte{1, 2}) < 0 {
		rt.Assert(bb[0] <= 1, "cmp")
	}
	idx := rt.Int("idx")
	arr := []byte{10, 20, 30}
	p := rt.Try(func() { _ = arr[idx] })
	rt.Assert(p == (idx < 0 || idx >= 3), "oob-iff")
}

func Hash() {
	h := rt.NewHasher(256)
	a := rt.Bytes("a", 32)
	b := rt.Bytes("b", 32)
	ha := h.Do(a)
	hb := h.Do(b)
	if bytes.Equal(ha, hb) {
		rt.Assert(bytes.Equal(a, b), "injective")
	}
	f := rt.Digest("forged")
	l := h.Salted([]byte{1}, ha, hb)
	r := h.Salted([]byte{1}, f, hb)
	if bytes.Equal(l, r) {
		rt.Assert(bytes.Equal(f, ha), "forged-sibling")
	}
	rt.Assert(!bytes.Equal(l, ha), "no-cycle")
	rt.Assert(!bytes.Equal(f, ha), "free-can-equal") // must be violated
}
