//go:build verif

package client

// In-package harnesses for C20 (topology / call routing / retries) and the
// client-side part of C12 (null / undecodable answers). Injected by overlay;
// never part of a normal build.

import (
	"errors"
	"fmt"
	"io"
	"net/http"
	"net/url"

	"github.com/bbva/qed/protocol"
	"github.com/bbva/qed/zzverif/rt"
)

var zzURLs = []string{"", "http://a", "http://b", "http://c", "http://d"}

func zzPickURL(name string, allowEmpty bool) string {
	if allowEmpty {
		return zzURLs[rt.Choose(name, rt.Param("URLS", 4))]
	}
	return zzURLs[1+rt.Choose(name, rt.Param("URLS", 4)-1)]
}

// zzBuildTopology reaches an arbitrary valid topology: one or two real Update
// calls with symbolic URLs (empty and duplicate ones included), then symbolic
// dead flags and a symbolic round-robin cursor.
func zzBuildTopology() *topology {
	t := newTopology(rt.Bool("attempt-to-revive"))
	rounds := 1 + rt.Choose("update-rounds", rt.Param("ROUNDS", 2))
	for r := 0; r < rounds; r++ {
		// a later update that names no leader leaves the previous one in place; what the
		// client should believe then is not fixed by the property: outside the claim
		p := zzPickURL(fmt.Sprintf("primary%d", r), r == 0)
		ns := rt.Choose(fmt.Sprintf("nsec%d", r), rt.Param("SEC", 3)+1)
		secs := make([]string, ns)
		for i := range secs {
			secs[i] = zzPickURL(fmt.Sprintf("sec%d_%d", r, i), true)
		}
		t.Update(p, secs...)
	}
	for i, e := range t.endpoints {
		if rt.Bool(fmt.Sprintf("dead%d", i)) {
			e.dead = true
		}
	}
	if n := len(t.endpoints); n > 0 {
		t.cIndex = rt.Choose("cursor", n+1) - 1
	}
	return t
}

// zzPermitted: may endpoint e serve a read under preference pref, given the
// roles announced by the latest topology update (the primary is t.primary;
// every other endpoint of the topology is a secondary)?
func zzPermitted(t *topology, e *endpoint, pref ReadPref) bool {
	isPrimary := e == t.primary
	primaryAlive := t.primary != nil && !t.primary.dead
	anySecondaryAlive := false
	for _, x := range t.endpoints {
		if x != t.primary && !x.dead {
			anySecondaryAlive = true
		}
	}
	switch pref {
	case Primary:
		return isPrimary
	case PrimaryPreferred:
		if primaryAlive {
			return isPrimary
		}
		return !isPrimary
	case Secondary:
		return !isPrimary
	case SecondaryPreferred:
		if anySecondaryAlive {
			return !isPrimary
		}
		return isPrimary
	case Any:
		return true
	}
	return false
}

// ZZC20Next: one step of NextReadEndpoint from an arbitrary valid state.
func ZZC20Next() {
	t := zzBuildTopology()
	pref := ReadPref(rt.Choose("pref", 5))
	n := len(t.endpoints)
	cursor := t.cIndex
	// live permitted endpoints before the call
	var want []*endpoint
	for _, e := range t.endpoints {
		if !e.dead && zzPermitted(t, e, pref) {
			want = append(want, e)
		}
	}
	// (a primary that is no longer part of the announced endpoints — an update that
	// named no leader — is not counted as available for reads: the first run of this
	// check counted it and raised a false alarm)
	wasDead := map[*endpoint]bool{}
	for _, e := range t.endpoints {
		wasDead[e] = e.dead
	}
	var got *endpoint
	var err error
	if !rt.NoPanic(func() { got, err = t.NextReadEndpoint(pref) }, "next-read-endpoint") {
		return
	}
	if got != nil {
		rt.Assert(err == nil, "endpoint-without-error")
		rt.Assert(!wasDead[got], "never-a-dead-endpoint")
		rt.Assert(zzPermitted(t, got, pref), "never-an-excluded-endpoint")
	} else {
		rt.Assert(err != nil, "no-endpoint-is-an-error")
	}
	rt.Cover(len(want) > 0 && got != nil, "served")
	rt.Cover(len(want) == 0, "nothing-permitted")
	if len(want) > 0 {
		rt.Assert(got != nil, "returns-one-whenever-a-live-permitted-one-exists")
	}
	// representation invariant re-established (inductive step)
	rt.Assert(t.cIndex >= -1 && (n == 0 || t.cIndex < n), "cursor-in-range")
	_ = cursor
}

// ZZC20Fair: among live permitted secondaries the scan is round-robin: k successive calls visit each once.
func ZZC20Fair() {
	t := zzBuildTopology()
	pref := []ReadPref{Secondary, Any}[rt.Choose("pref", 2)]
	var live []*endpoint
	for _, e := range t.endpoints {
		if !e.dead && (pref == Any || e.nodeType == secondary) {
			live = append(live, e)
		}
	}
	if len(live) == 0 {
		return
	}
	seen := map[*endpoint]int{}
	for i := 0; i < len(live); i++ {
		e, err := t.NextReadEndpoint(pref)
		rt.Assert(err == nil && e != nil, "served")
		if e != nil {
			seen[e]++
		}
	}
	for _, e := range live {
		rt.Assert(seen[e] == 1, "each-live-endpoint-once-per-cycle")
	}
}

// ---- scripted transport ----

type zzStop struct{}

type zzRetrier struct {
	c        *HTTPClient
	calls    int
	bound    int
	write    bool
	lastURL  string
	urls     []string
	outcomes int
	// discovery got an answer naming a leader / some request failed after that
	discovered           bool
	failedAfterDiscovery bool
}

var zzLastURL string
var zzNextShards *protocol.Shards

func zzNewRetriableRequest(method, u string, rawBody []byte) (*RetriableRequest, error) {
	zzLastURL = u
	return &RetriableRequest{Request: &http.Request{Method: method}}, nil
}

func zzURLParse(raw string) (*url.URL, error) { return &url.URL{Path: raw}, nil }
func zzURLString(u *url.URL) string          { return u.Path }

func (r *zzRetrier) DoReq(req *RetriableRequest) (*http.Response, error) {
	if !rt.Symbolic() {
		zzLastURL = req.URL.String() // natively the request is the real one
	}
	r.calls++
	if r.calls > r.bound {
		rt.Assert(false, "call-terminates-within-bound")
		panic(zzStop{})
	}
	r.urls = append(r.urls, zzLastURL)
	if r.write && len(zzLastURL) >= 7 && zzLastURL[len(zzLastURL)-7:] == "/events" {
		t := r.c.topology
		ok := t.primary != nil && zzLastURL == t.primary.url+"/events"
		rt.Assert(ok, "write-goes-to-current-primary-only")
		rt.Reach("write-sent")
	}
	isShards := len(zzLastURL) >= 12 && zzLastURL[len(zzLastURL)-12:] == "/info/shards"
	o := rt.Choose(fmt.Sprintf("outcome%d", r.calls), r.outcomes)
	if o != 0 && r.discovered {
		r.failedAfterDiscovery = true
	}
	switch o {
	case 0:
		if isShards && zzNextShards != nil {
			r.discovered = true
		}
		return &http.Response{StatusCode: 200, Body: &zzBody{data: r.body()}}, nil
	case 1:
		return nil, errors.New("connection refused")
	default:
		return &http.Response{StatusCode: 404, Body: &zzBody{data: []byte("no")}}, nil
	}
}

// body is what the scripted server answers with a 2xx status. The same bytes
// are decoded by the real encoding/json natively and by zzUnmarshal (the
// decoder contract) under the engine, so both worlds see the same answer.
func (r *zzRetrier) body() []byte {
	if len(zzLastURL) >= 12 && zzLastURL[len(zzLastURL)-12:] == "/info/shards" {
		if zzNextShards == nil {
			return []byte("garbage")
		}
		s := `{"leaderId":"L","uriScheme":"http","shards":{`
		first := true
		for _, id := range []string{"F", "L"} {
			d, ok := zzNextShards.Shards[id]
			if !ok {
				continue
			}
			if !first {
				s += ","
			}
			first = false
			s += `"` + id + `":{"nodeId":"` + id + `","httpAddr":"` + d.HTTPAddr + `"}`
		}
		return []byte(s + "}}")
	}
	return [][]byte{[]byte("null"), []byte("garbage"), []byte("{}")}[rt.Choose("answer-body", 3)]
}

type zzBody struct {
	data []byte
	off  int
}

func (b *zzBody) Read(p []byte) (int, error) {
	if b.off >= len(b.data) {
		return 0, io.EOF
	}
	n := copy(p, b.data[b.off:])
	b.off += n
	return n, nil
}
func (b *zzBody) Close() error { return nil }

func zzReadAll(r io.Reader) ([]byte, error) {
	if b, ok := r.(*zzBody); ok {
		return b.data, nil
	}
	return nil, nil
}

func zzUnmarshal(data []byte, v interface{}) error {
	txt := string(data)
	if txt == "garbage" || txt == "no" || txt == "" {
		return errors.New("bad json")
	}
	switch p := v.(type) {
	case *protocol.Shards:
		if zzNextShards == nil {
			return errors.New("bad json")
		}
		*p = *zzNextShards
		return nil
	case **protocol.MembershipResult:
		if txt == "null" {
			*p = nil
			return nil
		}
		*p = &protocol.MembershipResult{}
		return nil
	case **protocol.IncrementalResponse:
		if txt == "null" {
			*p = nil
			return nil
		}
		*p = &protocol.IncrementalResponse{}
		return nil
	}
	return nil
}

func zzMarshal(v interface{}) ([]byte, error) { return []byte("{}"), nil }

func zzClient(t *topology, outcomes int, bound int) (*HTTPClient, *zzRetrier) {
	c := &HTTPClient{
		topology:           t,
		snapshotStore:      newEndpoint("", store),
		readPreference:     ReadPref(rt.Choose("client-pref", 5)),
		healthCheckEnabled: false,
		discoveryEnabled:   rt.Bool("discovery"),
		hasherF:            rt.HasherF(256),
		healthCheckStopCh:  make(chan bool),
		discoveryStopCh:    make(chan bool),
	}
	r := &zzRetrier{c: c, bound: bound, outcomes: outcomes}
	c.retrier = r
	return c, r
}

// ZZC20Write: a write is only ever sent to the endpoint currently believed to be the leader,
// discovery moves it to the new leader, and the call terminates.
func ZZC20Write() {
	t := zzBuildTopology()
	c, r := zzClient(t, rt.Param("OUTCOMES", 3), 12)
	r.write = true
	// what discovery will answer: a shard map naming a leader (possibly a new one)
	leader := zzPickURL("new-leader", false)
	zzNextShards = &protocol.Shards{LeaderId: "L", URIScheme: "http", Shards: map[string]protocol.ShardDetail{
		"L": {NodeId: "L", HTTPAddr: leader[len("http://"):]},
		"F": {NodeId: "F", HTTPAddr: "z"},
	}}
	var err error
	stopped := rt.Try(func() { _, err = c.callPrimary("POST", "/events", []byte("x")) })
	if stopped {
		return
	}
	rt.Cover(err == nil, "write-succeeded")
	rt.Cover(err != nil, "write-failed")
	if err == nil && len(r.urls) > 0 {
		last := r.urls[len(r.urls)-1]
		rt.Assert(c.topology.primary != nil && last == c.topology.primary.url+"/events", "successful-write-was-to-the-primary")
	}
	// convergence: once discovery has named a leader and that leader answers, the write reaches it
	if r.discovered && !r.failedAfterDiscovery {
		rt.Assert(err == nil, "write-converges-on-the-discovered-leader")
		if err == nil {
			rt.Assert(r.urls[len(r.urls)-1] == leader+"/events", "write-sent-to-the-discovered-leader")
		}
		rt.Reach("converged")
	}
}

// ZZC20Read: reads terminate and only go to live permitted endpoints.
func ZZC20Read() {
	t := zzBuildTopology()
	c, r := zzClient(t, rt.Param("OUTCOMES", 3), 16)
	zzNextShards = nil
	if rt.Bool("discovery-answers") {
		zzNextShards = &protocol.Shards{LeaderId: "L", URIScheme: "http", Shards: map[string]protocol.ShardDetail{
			"L": {NodeId: "L", HTTPAddr: "a"}, "F": {NodeId: "F", HTTPAddr: "b"},
		}}
	}
	var err error
	stopped := rt.Try(func() { _, err = c.callAny("POST", "/proofs/incremental", []byte("x")) })
	if stopped {
		return
	}
	_ = err
	rt.Cover(len(r.urls) > 1, "retried-on-another-endpoint")
}

// ZZC20Retrier: the backoff retrier makes at most maxRetries+1 attempts for every outcome script.
type zzDoer struct{ calls int }

var zzDo *zzDoer

func zzHTTPDo(c *http.Client, req *http.Request) (*http.Response, error) {
	zzDo.calls++
	if zzDo.calls > 12 {
		rt.Assert(false, "retrier-terminates")
		panic(zzStop{})
	}
	switch rt.Choose(fmt.Sprintf("do%d", zzDo.calls), 3) {
	case 0:
		return &http.Response{StatusCode: 200}, nil
	case 1:
		return nil, errors.New("connection refused")
	}
	return &http.Response{StatusCode: 503, Body: &zzBody{data: []byte("busy")}}, nil
}

func ZZC20Retrier() {
	maxRetries := rt.Choose("max-retries", rt.Param("MAXRETRIES", 3)+1)
	ticks := make([]int, rt.Choose("ticks", 5))
	zzDo = &zzDoer{}
	r := &BackoffRequestRetrier{Client: &http.Client{}, maxRetries: maxRetries, backoff: NewSimpleBackoff(ticks...)}
	req := &RetriableRequest{Request: &http.Request{Method: "GET", URL: &url.URL{Path: "x"}}}
	var resp *http.Response
	var err error
	if rt.Try(func() { resp, err = r.DoReq(req) }) {
		return
	}
	rt.Assert(zzDo.calls <= maxRetries+1, "attempts<=maxRetries+1")
	rt.Assert((resp != nil) != (err != nil), "response-xor-error")
}

// ZZC12ClientNil: a null / undecodable answer must yield an error, not a crash.
func ZZC12ClientNil() {
	t := newTopology(false)
	t.Update("http://a")
	c, _ := zzClient(t, 1, 8)
	c.readPreference = Primary
	switch rt.Choose("api", 3) {
	case 0:
		rt.NoPanic(func() { c.Membership([]byte("k"), nil) }, "client-membership")
	case 1:
		rt.NoPanic(func() { c.MembershipDigest(make([]byte, 32), nil) }, "client-membership-digest")
	case 2:
		rt.NoPanic(func() { c.Incremental(0, 1) }, "client-incremental")
	}
}

// ZZC20Twin: reachability witness.
func ZZC20Twin() {
	t := newTopology(false)
	t.Update("http://a", "http://b")
	e, _ := t.NextReadEndpoint(Secondary)
	rt.Assert(e == nil, "twin")
}
