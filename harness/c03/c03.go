package c03

import (
	"fmt"

	"github.com/bbva/qed/zzverif/models"
	"github.com/bbva/qed/zzverif/rt"
)

const N = 4

// Complete: every (i,j) incremental proof verifies against snapshots i and j.
func Complete() {
	n := 1 + rt.Choose("n", N)
	rt.Bound("max_events", N)
	l := models.NewLog(256)
	for k := 0; k < n; k++ {
		l.Add(models.PrefixedDigest(fmt.Sprintf("d%d", k), 32, byte(k), 0, 0))
	}
	j := rt.Choose("j", n)
	i := rt.Choose("i", j+1)
	p, err := l.B.QueryConsistency(uint64(i), uint64(j))
	rt.Assert(err == nil, "query-ok")
	ok := p.Verify(l.Snaps[i], l.Snaps[j])
	rt.Assert(ok, "incremental-verifies")
}
