// Package c03: consistency proofs verify for every version pair and expose any fork.
package c03

import (
	"bytes"
	"fmt"

	"github.com/bbva/qed/balloon"
	"github.com/bbva/qed/crypto/hashing"
	"github.com/bbva/qed/zzverif/models"
	"github.com/bbva/qed/zzverif/rt"
)

const bits = 256

func digest(tag string, k int) hashing.Digest {
	return models.PrefixedDigest(fmt.Sprintf("%s%d", tag, k), bits/8, byte(k), 0, 0)
}

func build(n int) *models.Log {
	l := models.NewLog(bits)
	for k := 0; k < n; k++ {
		l.Add(digest("d", k))
	}
	return l
}

func pick() (n, i, j int) {
	N := rt.Param("N", 4)
	n = 1 + rt.Choose("n", N)
	j = rt.Choose("j", n)
	i = rt.Choose("i", j+1)
	return
}

func verify(p *balloon.IncrementalProof, s, e *balloon.Snapshot) (ok bool) {
	if rt.Try(func() { ok = p.Verify(s, e) }) {
		return false // a verifier panic counts as rejection here (totality is C12)
	}
	return ok
}

// Complete: every (i,j) incremental proof verifies against snapshots i and j.
func Complete() {
	n, i, j := pick()
	l := build(n)
	p, err := l.B.QueryConsistency(uint64(i), uint64(j))
	rt.Assert(err == nil, "query-ok")
	ok := p.Verify(l.Snaps[i], l.Snaps[j])
	rt.Assert(ok, "incremental-verifies")
	rt.Trace("start", l.Snaps[i].HistoryDigest)
	rt.Trace("end", l.Snaps[j].HistoryDigest)
	rt.Cover(i < j, "i<j")
	rt.Cover(i == j, "i==j")
}

// Held: a proof handed out stays what it was while the log serves other queries
// and accepts further events (a server serialises the answer after the query
// returned, and a client may verify it later): two consistency proofs and a
// membership proof are requested, one more event is added, and only then is each
// proof verified against the snapshots of its own versions.
func Held() {
	n, i, j := pick()
	l := build(n)
	p1, err := l.B.QueryConsistency(uint64(i), uint64(j))
	rt.Assert(err == nil, "query-ok")
	l2 := rt.Choose("j2", n)
	k2 := rt.Choose("i2", l2+1)
	p2, err2 := l.B.QueryConsistency(uint64(k2), uint64(l2))
	rt.Assert(err2 == nil, "second-query-ok")
	e := rt.Choose("event", n)
	mp, err3 := l.B.QueryDigestMembershipConsistency(l.Digests[e], uint64(n-1))
	rt.Assert(err3 == nil, "membership-query-ok")
	if err != nil || err2 != nil || err3 != nil {
		return
	}
	if rt.Choose("then-add", 2) == 1 {
		l.Add(digest("late", n))
	}
	rt.Assert(verify(p1, l.Snaps[i], l.Snaps[j]), "held-proof-still-verifies")
	rt.Assert(verify(p2, l.Snaps[k2], l.Snaps[l2]), "second-held-proof-verifies")
	snap := &balloon.Snapshot{HistoryDigest: l.Snaps[n-1].HistoryDigest, HyperDigest: l.Snaps[n-1].HyperDigest, Version: uint64(n - 1)}
	rt.Assert(mp.DigestVerify(l.Digests[e], snap), "held-membership-proof-verifies")
}

// Twin must reach its assert(false).
func Twin() {
	n, i, j := pick()
	l := build(n)
	p, _ := l.B.QueryConsistency(uint64(i), uint64(j))
	ok := p.Verify(l.Snaps[i], l.Snaps[j])
	rt.Assert(!ok, "twin")
}

// RejectDigest: either digest replaced by any other value (free, or another version's) is rejected.
func RejectDigest() {
	n, i, j := pick()
	l := build(n)
	p, err := l.B.QueryConsistency(uint64(i), uint64(j))
	rt.Assume(err == nil)
	which := rt.Choose("which", 2)
	src := rt.Choose("source", 2)
	var alt hashing.Digest
	if src == 0 {
		alt = rt.Digest("alt")
	} else {
		k := rt.Choose("k", n)
		alt = l.Snaps[k].HistoryDigest
	}
	s := *l.Snaps[i]
	e := *l.Snaps[j]
	if which == 0 {
		rt.Assume(!bytes.Equal(alt, s.HistoryDigest))
		s.HistoryDigest = alt
	} else {
		rt.Assume(!bytes.Equal(alt, e.HistoryDigest))
		e.HistoryDigest = alt
	}
	rt.Assert(!verify(p, &s, &e), "altered-digest-rejected")
}

// RejectFork: the digest of a log that diverged at p <= j (resp. p <= i) is rejected.
func RejectFork() {
	n, i, j := pick()
	l := build(n)
	pr, err := l.B.QueryConsistency(uint64(i), uint64(j))
	rt.Assume(err == nil)
	p := rt.Choose("forkpoint", j+1)
	l2 := models.NewLog(bits)
	for k := 0; k < n; k++ {
		if k < p {
			l2.Add(l.Digests[k])
		} else if k == p {
			d := digest("f", k)
			rt.Assume(!bytes.Equal(d, l.Digests[k]))
			l2.Add(d)
		} else {
			l2.Add(digest("g", k))
		}
	}
	// end digest from the fork
	rt.Assert(!verify(pr, l.Snaps[i], l2.Snaps[j]), "forked-end-rejected")
	if p <= i {
		rt.Assert(!verify(pr, l2.Snaps[i], l.Snaps[j]), "forked-start-rejected")
	}
	// and the fork's own proof does not verify against this log's digests
	pr2, err2 := l2.B.QueryConsistency(uint64(i), uint64(j))
	rt.Assume(err2 == nil)
	rt.Assert(!verify(pr2, l.Snaps[i], l.Snaps[j]), "fork-proof-rejected")
}

// RejectEntry: altering any single audit-path entry is rejected.
func RejectEntry() {
	n, i, j := pick()
	l := build(n)
	p, err := l.B.QueryConsistency(uint64(i), uint64(j))
	rt.Assume(err == nil)
	m := len(p.AuditPath)
	if m == 0 {
		rt.Reach("empty-path")
		return
	}
	t := rt.Choose("entry", m)
	idx := 0
	for k, v := range p.AuditPath {
		if idx == t {
			alt := rt.Digest("alt")
			rt.Assume(!bytes.Equal(alt, v))
			p.AuditPath[k] = alt
			break
		}
		idx++
	}
	rt.Assert(!verify(p, l.Snaps[i], l.Snaps[j]), "altered-entry-rejected")
}

// RejectDrop: removing any single audit-path entry is rejected (panic counts as rejection).
func RejectDrop() {
	n, i, j := pick()
	l := build(n)
	p, err := l.B.QueryConsistency(uint64(i), uint64(j))
	rt.Assume(err == nil)
	m := len(p.AuditPath)
	if m == 0 {
		return
	}
	t := rt.Choose("entry", m)
	idx := 0
	for k := range p.AuditPath {
		if idx == t {
			delete(p.AuditPath, k)
			break
		}
		idx++
	}
	rt.Assert(!verify(p, l.Snaps[i], l.Snaps[j]), "dropped-entry-rejected")
}

// RejectVersions: replacing (Start, End) by any other in-range pair is rejected.
func RejectVersions() {
	n, i, j := pick()
	l := build(n)
	p, err := l.B.QueryConsistency(uint64(i), uint64(j))
	rt.Assume(err == nil)
	j2 := rt.Choose("j2", n)
	i2 := rt.Choose("i2", j2+1)
	rt.Assume(i2 != i || j2 != j)
	p.Start, p.End = uint64(i2), uint64(j2)
	rt.Assert(!verify(p, l.Snaps[i], l.Snaps[j]), "altered-versions-rejected")
}

// RangeValidation: any 64-bit (start,end) outside start <= end < version is an error and never reaches the tree.
func RangeValidation() {
	N := rt.Param("N", 4)
	n := rt.Choose("n", N+1) // including the empty log
	l := build(n)
	start := rt.U64("start")
	end := rt.U64("end")
	valid := start <= end && end < uint64(n)
	var p *balloon.IncrementalProof
	var err error
	ok := rt.NoPanic(func() { p, err = l.B.QueryConsistency(start, end) }, "query-consistency-no-panic")
	if !ok {
		return
	}
	if !valid {
		rt.Assert(err != nil && p == nil, "invalid-range-is-error")
	} else {
		rt.Assert(err == nil && p != nil, "valid-range-ok")
	}
}
