// Package c04: snapshot digests are a canonical function of the event sequence alone.
// The real trees are compared, on symbolic digests, with an independent
// reference implementation written from the published construction.
package c04

import (
	"bytes"
	"fmt"

	"github.com/bbva/qed/balloon"
	"github.com/bbva/qed/balloon/history"
	"github.com/bbva/qed/crypto/hashing"
	"github.com/bbva/qed/storage"
	"github.com/bbva/qed/zzverif/models"
	"github.com/bbva/qed/zzverif/rt"
)

const bits = 256
const L = bits / 8

// ---------- reference model (does not use any QED code except the Hasher interface) ----------

func be64(v uint64) []byte {
	b := make([]byte, 8)
	for i := 0; i < 8; i++ {
		b[7-i] = byte(v >> (8 * uint(i)))
	}
	return b
}

func be16(v uint16) []byte { return []byte{byte(v >> 8), byte(v)} }

func bitlen(v uint64) uint16 {
	n := uint16(0)
	for v != 0 {
		n++
		v >>= 1
	}
	return n
}

// history tree: leaf = H(digest || pos), full inner = H(l || r || pos), partial inner = H(l || pos),
// pos = index(8 bytes BE) || height(2 bytes BE); the root of version v has height bitlen(v).
func refHistoryRoot(h hashing.Hasher, ds []hashing.Digest, v uint64) hashing.Digest {
	var node func(index uint64, height uint16) hashing.Digest
	node = func(index uint64, height uint16) hashing.Digest {
		pos := append(be64(index), be16(height)...)
		if height == 0 {
			return h.Do(ds[index], pos)
		}
		right := index + (uint64(1) << (height - 1))
		l := node(index, height-1)
		if v < right {
			return h.Do(l, pos)
		}
		r := node(right, height-1)
		return h.Do(l, r, pos)
	}
	return node(0, bitlen(v))
}

type kv struct {
	key   []byte
	value uint64
}

func bit(key []byte, i int) bool { return key[i/8]&(1<<uint(7-i%8)) != 0 }

// hyper tree: 256-level sparse Merkle tree key -> version. Empty subtree at height h:
// default[0] = H(0x00 || 0x00), default[h] = H(default[h-1] || default[h-1]).
// A subtree at height <= cacheLimit (232) holding exactly one key is the shortcut leaf
// H(value || pos) with value = version right-aligned in 32 bytes and
// pos = height(2 bytes BE) || index (the key prefix followed by zero bits).
// Everything else is H(right || left || pos) (children in the order the implementation pops them).
func refHyperRoot(h hashing.Hasher, kvs []kv) hashing.Digest {
	defaults := make([]hashing.Digest, bits+1)
	defaults[0] = h.Do([]byte{0}, []byte{0})
	for i := 1; i <= bits; i++ {
		defaults[i] = h.Do(defaults[i-1], defaults[i-1])
	}
	cacheLimit := bits - 24
	var node func(prefix []byte, depth int, set []kv) hashing.Digest
	node = func(prefix []byte, depth int, set []kv) hashing.Digest {
		height := bits - depth
		if len(set) == 0 {
			return defaults[height]
		}
		pos := append(be16(uint16(height)), prefix...)
		if (height <= cacheLimit && len(set) == 1) || height == 0 {
			value := make([]byte, L)
			copy(value[L-8:], be64(set[len(set)-1].value))
			return h.Do(value, pos)
		}
		var left, right []kv
		for _, e := range set {
			if bit(e.key, depth) {
				right = append(right, e)
			} else {
				left = append(left, e)
			}
		}
		rp := append([]byte{}, prefix...)
		rp[depth/8] |= 1 << uint(7-depth%8)
		l := node(prefix, depth+1, left)
		r := node(rp, depth+1, right)
		// the implemented construction feeds the children to the hash in (right, left) order:
		// the operation stack is LIFO, so the verifier and the prover both pop the right
		// subtree first (first run of this check showed the mismatch; the property does
		// not fix the order, the implementation is the definition)
		return h.Do(r, l, pos)
	}
	return node(make([]byte, L), 0, kvs)
}

// ---------- harness ----------

var symValues = []byte{0x00, 0x80, 0x10, 0x08, 0x01, 0x40, 0x20, 0x04, 0x02, 0xff}

func gen(n int, cluster bool) []hashing.Digest {
	ds := make([]hashing.Digest, n)
	positions := []int{3, 4, 17, 31}
	symPos := positions[rt.Choose("sympos", rt.Param("POS", 1))]
	for k := 0; k < n; k++ {
		name := fmt.Sprintf("d%d", k)
		if !cluster || (mixed && rt.Choose(fmt.Sprintf("far%d", k), 2) == 1) {
			ds[k] = models.PrefixedDigest(name, L, 0x60+byte(k), 0, 0)
			continue
		}
		d := make([]byte, L)
		d[0] = 0x5a
		b := rt.Byte(name)
		ok := false
		for _, v := range symValues[:rt.Param("VALS", 5)] {
			ok = ok || b == v
		}
		rt.Assume(ok)
		d[symPos] = b
		ds[k] = d
	}
	for a := 0; a < n; a++ {
		for b := a + 1; b < n; b++ {
			rt.Assume(!bytes.Equal(ds[a], ds[b]))
		}
	}
	return ds
}

var mixed bool

// Mixed: every event either clusters (shares the cache-level prefix) or has its own prefix.
func Mixed() {
	mixed = true
	run(true)
}

func run(cluster bool) {
	n := 1 + rt.Choose("n", rt.Param("N", 3))
	ds := gen(n, cluster)
	l := models.NewLog(bits)
	restartAt := rt.Choose("restart-at", n+1) // == n: no restart
	i := 0
	for i < n {
		if i == restartAt && rt.Param("RESTART", 1) == 1 {
			// clean restart: a new Balloon over the same store (RebuildCache, RefreshVersion)
			b, err := balloon.NewBalloon(l.Store, rt.HasherF(bits))
			rt.Assert(err == nil, "reopen-ok")
			l.B = b
			rt.Reach("restarted")
		}
		m := 1 + rt.Choose(fmt.Sprintf("group@%d", i), n-i)
		if i < restartAt && i+m > restartAt {
			m = restartAt - i
		}
		if m == 1 && rt.Choose(fmt.Sprintf("single@%d", i), 2) == 0 {
			l.Add(ds[i])
		} else {
			l.AddBulk(ds[i : i+m])
		}
		i += m
	}
	h := rt.NewHasher(bits)
	var kvs []kv
	for v := 0; v < n; v++ {
		s := l.Snaps[v]
		rt.Assert(s.Version == uint64(v), "version-dense")
		rt.Assert(bytes.Equal(s.EventDigest, ds[v]), "event-digest")
		rt.Assert(bytes.Equal(s.HistoryDigest, refHistoryRoot(h, ds, uint64(v))), "history-digest-canonical")
		kvs = append(kvs, kv{ds[v], uint64(v)})
	}
	// the hyper digest of a snapshot is the root after the whole call (bulk) it belongs to;
	// the final one is the root over all n events
	rt.Assert(bytes.Equal(l.Snaps[n-1].HyperDigest, refHyperRoot(h, kvs)), "hyper-digest-canonical")
	rt.Trace("hyper", l.Snaps[n-1].HyperDigest)
	rt.Trace("history", l.Snaps[n-1].HistoryDigest)
}

func Spread()  { run(false) }
func Cluster() { run(true) }

// Slots: every slot of every row of the first stored tile (the four levels below the cache)
// occupied by a shortcut leaf that is then pushed down: k1 and k2 share the 24 cached bits and
// differ at one of the tile's four levels (every 4-bit pattern for k1), k3 shares 28 or more
// bits with k1. Every grouping into Add/AddBulk calls gives the canonical root.
func Slots() {
	x := byte(rt.Choose("k1-tile-bits", 16))
	sib := x ^ byte(8>>uint(rt.Choose("k2-differs-at-tile-level", 4)))
	low := []byte{0x3, 0x9, 0x0}[rt.Choose("k3-low-bits", 3)] // k3 differs from k1 (low nibble 1) at bit 30, 28 or 31
	k1 := models.PrefixedDigest("k1", bits/8, 0x5a, 0, 0, x<<4|0x1)
	k2 := models.PrefixedDigest("k2", bits/8, 0x5a, 0, 0, sib<<4)
	k3 := models.PrefixedDigest("k3", bits/8, 0x5a, 0, 0, x<<4|low)
	ds := []hashing.Digest{k2, k1, k3}
	if rt.Choose("k1-first", 2) == 1 {
		ds = []hashing.Digest{k1, k2, k3}
	}
	l := models.NewLog(bits)
	switch rt.Choose("grouping", 4) {
	case 0:
		l.Add(ds[0])
		l.Add(ds[1])
		l.Add(ds[2])
	case 1:
		l.AddBulk(ds[:2])
		l.Add(ds[2])
	case 2:
		l.AddBulk(ds[:2])
		l.AddBulk(ds[2:])
	case 3:
		l.AddBulk(ds)
	}
	h := rt.NewHasher(bits)
	var kvs []kv
	for v := range ds {
		kvs = append(kvs, kv{ds[v], uint64(v)})
	}
	rt.Assert(bytes.Equal(l.Snaps[2].HyperDigest, refHyperRoot(h, kvs)), "hyper-digest-canonical-for-every-tile-slot")
}

// LongRestart: one long run — BULKS bulks of PER events whose digests have pairwise distinct
// 20-bit prefixes, so that the persisted hyper cache holds more recovery tiles than one read
// page of the warm-up (1000) — fed to two logs; one of them is restarted (a new Balloon over
// the same store) before the last events. Every later snapshot must be the same in both.
func LongRestart() {
	bulks := rt.Param("BULKS", 22)
	per := rt.Param("PER", 50)
	a, b := models.NewLog(bits), models.NewLog(bits)
	k := 0
	next := func(m int) []hashing.Digest {
		var ds []hashing.Digest
		for i := 0; i < m; i++ {
			// 20-bit prefix = k (distinct), remaining bits symbolic
			ds = append(ds, models.PrefixedDigest(fmt.Sprintf("d%d", k), bits/8, byte(k>>12), byte(k>>4), byte(k<<4)))
			k++
		}
		return ds
	}
	for i := 0; i < bulks; i++ {
		ds := next(per)
		a.AddBulk(ds)
		b.AddBulk(ds)
	}
	rt.Bound("recovery_tiles", len(b.Store.Dump(storage.HyperCacheTable)))
	rt.Cover(len(b.Store.Dump(storage.HyperCacheTable)) > 1000, "more-tiles-than-one-page")
	nb, err := balloon.NewBalloon(b.Store, rt.HasherF(bits))
	rt.Assert(err == nil, "reopen-ok")
	b.B = nb
	rt.Assert(nb.Version() == uint64(bulks*per), "version-after-restart")
	for _, ds := range [][]hashing.Digest{next(1), next(2)} {
		var sa, sb []*balloon.Snapshot
		if len(ds) == 1 {
			sa, sb = []*balloon.Snapshot{a.Add(ds[0])}, []*balloon.Snapshot{b.Add(ds[0])}
		} else {
			sa, sb = a.AddBulk(ds), b.AddBulk(ds)
		}
		for i := range sa {
			rt.Assert(sa[i].Version == sb[i].Version, "restart:same-version")
			rt.Assert(bytes.Equal(sa[i].HistoryDigest, sb[i].HistoryDigest), "restart:history-digest-independent-of-restarts")
			rt.Assert(bytes.Equal(sa[i].HyperDigest, sb[i].HyperDigest), "restart:hyper-digest-independent-of-restarts")
		}
	}
}

// EachHyper: with single Adds every snapshot's hyper digest is the canonical root of its prefix.
func EachHyper() {
	n := 1 + rt.Choose("n", rt.Param("N", 3))
	ds := gen(n, true)
	l := models.NewLog(bits)
	h := rt.NewHasher(bits)
	var kvs []kv
	for v := 0; v < n; v++ {
		l.Add(ds[v])
		kvs = append(kvs, kv{ds[v], uint64(v)})
		rt.Assert(bytes.Equal(l.Snaps[v].HyperDigest, refHyperRoot(h, kvs)), "hyper-digest-canonical-at-each-version")
	}
}

// HistoryCache: the history tree alone with tiny write caches (evictions) and a longer log.
func HistoryCache() {
	n := 1 + rt.Choose("n", rt.Param("N", 8))
	size := []uint16{0, 1, 2, 3, 300}[rt.Choose("cache", 5)]
	st := models.NewMemStore()
	t := history.NewHistoryTree(rt.HasherF(bits), st, size)
	h := rt.NewHasher(bits)
	ds := make([]hashing.Digest, n)
	for v := 0; v < n; v++ {
		ds[v] = rt.Bytes(fmt.Sprintf("d%d", v), L)
	}
	// a bulk needs its own freshly frozen nodes from the write cache before they are
	// persisted: only meaningful with a cache at least as large as a root path (the
	// production value is 300); tiny caches are exercised with single insertions.
	bulkFrom := n
	if size == 300 {
		bulkFrom = rt.Choose("bulk-from", n+1)
	}
	for v := 0; v < n; v++ {
		if v == bulkFrom {
			roots, muts, err := t.AddBulk(ds[v:], uint64(v))
			rt.Assert(err == nil, "bulk-ok")
			st.Mutate(muts, nil)
			for k, r := range roots {
				rt.Assert(bytes.Equal(r, refHistoryRoot(h, ds, uint64(v+k))), "history-digest-canonical-bulk")
			}
			break
		}
		r, muts, err := t.Add(ds[v], uint64(v))
		rt.Assert(err == nil, "add-ok")
		st.Mutate(muts, nil)
		rt.Assert(bytes.Equal(r, refHistoryRoot(h, ds, uint64(v))), "history-digest-canonical")
	}
}

// Twin: reachability witness.
func Twin() {
	ds := gen(2, false)
	l := models.NewLog(bits)
	l.Add(ds[0])
	l.Add(ds[1])
	h := rt.NewHasher(bits)
	rt.Assert(!bytes.Equal(l.Snaps[1].HistoryDigest, refHistoryRoot(h, ds, 1)), "twin")
}

// Debug1: one event, print both terms.
func Debug1() {
	ds := gen(1, false)
	l := models.NewLog(bits)
	l.Add(ds[0])
	h := rt.NewHasher(bits)
	rt.Trace("real", l.Snaps[0].HyperDigest)
	rt.Trace("ref", refHyperRoot(h, []kv{{ds[0], 0}}))
}
