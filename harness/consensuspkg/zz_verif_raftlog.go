//go:build verif

package consensus

// C15: the replicated-log store returns exactly what consensus stored.
// Engine side: the real raftLog methods run over a Go model of the cgo RocksDB
// wrapper (per-column-family sorted key lists, write batches, iterators);
// native side (replay / validation): the same harness runs on the real RocksDB
// through the shim, which is also what validates the model.

import (
	"bytes"
	"errors"
	"fmt"
	"io/ioutil"
	"os"

	"github.com/bbva/qed/rocksdb"
	"github.com/bbva/qed/zzverif/rt"
	"github.com/hashicorp/raft"
)

// ---- model of the wrapper (redirect targets) ----

type zzKV struct{ k, v []byte }

type zzOp struct {
	cf       *rocksdb.ColumnFamilyHandle
	point    bool // a point delete: no range tombstone
	del      bool
	k, v, to []byte
}

type zzIter struct {
	keys [][]byte
	pos  int
}

var (
	zzCFs    map[*rocksdb.ColumnFamilyHandle][]zzKV
	zzBatch  map[*rocksdb.WriteBatch][]zzOp
	zzIters  map[*rocksdb.Iterator]*zzIter
	zzSlices map[*rocksdb.Slice][]byte
	zzOpenIt int
	// entries removed by a range deletion stay physically present until compaction: a reader
	// that sets ignore_range_deletions sees them (RocksDB ReadOptions documentation)
	zzTomb     map[*rocksdb.ColumnFamilyHandle][]zzKV
	zzROIgnore map[*rocksdb.ReadOptions]bool
)

func zzRocksReset() {
	zzCFs = map[*rocksdb.ColumnFamilyHandle][]zzKV{}
	zzBatch = map[*rocksdb.WriteBatch][]zzOp{}
	zzIters = map[*rocksdb.Iterator]*zzIter{}
	zzSlices = map[*rocksdb.Slice][]byte{}
	zzOpenIt = 0
	zzTomb = map[*rocksdb.ColumnFamilyHandle][]zzKV{}
	zzROIgnore = map[*rocksdb.ReadOptions]bool{}
}

func zzROSetIgnoreRangeDeletions(ro *rocksdb.ReadOptions, v bool) { zzROIgnore[ro] = v }
func zzRODestroy(ro *rocksdb.ReadOptions)                         {}

func zzCFPut(cf *rocksdb.ColumnFamilyHandle, k, v []byte) {
	l := zzCFs[cf]
	i := 0
	for i < len(l) && bytes.Compare(l[i].k, k) < 0 {
		i++
	}
	kc, vc := append([]byte{}, k...), append([]byte{}, v...)
	if t := zzTomb[cf]; len(t) > 0 {
		var keep []zzKV
		for _, e := range t {
			if !bytes.Equal(e.k, k) {
				keep = append(keep, e)
			}
		}
		zzTomb[cf] = keep
	}
	if i < len(l) && bytes.Equal(l[i].k, k) {
		l[i].v = vc
	} else {
		l = append(l, zzKV{})
		copy(l[i+1:], l[i:])
		l[i] = zzKV{kc, vc}
	}
	zzCFs[cf] = l
}

// RocksDB's DeleteRange removes the keys in [begin, end); an end that does not come after begin removes nothing.
func zzCFDeleteRange(cf *rocksdb.ColumnFamilyHandle, begin, end []byte, point bool) {
	if bytes.Compare(begin, end) >= 0 {
		return
	}
	var out []zzKV
	for _, e := range zzCFs[cf] {
		if bytes.Compare(e.k, begin) >= 0 && bytes.Compare(e.k, end) < 0 {
			if !point {
				zzTomb[cf] = append(zzTomb[cf], e)
			}
			continue
		}
		out = append(out, e)
	}
	zzCFs[cf] = out
}

func zzPutCF(db *rocksdb.DB, wo *rocksdb.WriteOptions, cf *rocksdb.ColumnFamilyHandle, key, value []byte) error {
	zzCFPut(cf, key, value)
	return nil
}

func zzGetBytesCF(db *rocksdb.DB, ro *rocksdb.ReadOptions, cf *rocksdb.ColumnFamilyHandle, key []byte) ([]byte, error) {
	for _, e := range zzCFs[cf] {
		if bytes.Equal(e.k, key) {
			return append([]byte{}, e.v...), nil
		}
	}
	return nil, nil
}

func zzNewWriteBatch() *rocksdb.WriteBatch {
	wb := &rocksdb.WriteBatch{}
	zzBatch[wb] = nil
	return wb
}

func zzWBPutCF(wb *rocksdb.WriteBatch, cf *rocksdb.ColumnFamilyHandle, key, value []byte) {
	zzBatch[wb] = append(zzBatch[wb], zzOp{cf: cf, k: append([]byte{}, key...), v: append([]byte{}, value...)})
}

func zzWBDeleteRangeCF(wb *rocksdb.WriteBatch, cf *rocksdb.ColumnFamilyHandle, begin, end []byte) {
	zzBatch[wb] = append(zzBatch[wb], zzOp{cf: cf, del: true, k: append([]byte{}, begin...), to: append([]byte{}, end...)})
}

func zzWBDeleteCF(wb *rocksdb.WriteBatch, cf *rocksdb.ColumnFamilyHandle, key []byte) {
	// a point delete is the range [key, key+"\x00")
	zzBatch[wb] = append(zzBatch[wb], zzOp{cf: cf, del: true, point: true, k: append([]byte{}, key...), to: append(append([]byte{}, key...), 0)})
}

func zzWrite(db *rocksdb.DB, wo *rocksdb.WriteOptions, wb *rocksdb.WriteBatch) error {
	for _, op := range zzBatch[wb] {
		if op.del && bytes.Compare(op.k, op.to) > 0 {
			return errors.New("Invalid argument: end key comes before start key")
		}
	}
	for _, op := range zzBatch[wb] {
		if op.del {
			zzCFDeleteRange(op.cf, op.k, op.to, op.point)
		} else {
			zzCFPut(op.cf, op.k, op.v)
		}
	}
	return nil
}

func zzNewIteratorCF(db *rocksdb.DB, ro *rocksdb.ReadOptions, cf *rocksdb.ColumnFamilyHandle) *rocksdb.Iterator {
	it := &rocksdb.Iterator{}
	st := &zzIter{pos: -1}
	for _, e := range zzCFs[cf] {
		st.keys = append(st.keys, e.k)
	}
	if zzROIgnore[ro] {
		// range-deleted entries not yet compacted away are visible to this reader
		for _, e := range zzTomb[cf] {
			i := 0
			for i < len(st.keys) && bytes.Compare(st.keys[i], e.k) < 0 {
				i++
			}
			st.keys = append(st.keys, nil)
			copy(st.keys[i+1:], st.keys[i:])
			st.keys[i] = e.k
		}
	}
	zzIters[it] = st
	zzOpenIt++
	return it
}

func zzItSeekToFirst(it *rocksdb.Iterator) { zzIters[it].pos = 0 }
func zzItSeekToLast(it *rocksdb.Iterator)  { zzIters[it].pos = len(zzIters[it].keys) - 1 }
func zzItValid(it *rocksdb.Iterator) bool {
	st := zzIters[it]
	return st.pos >= 0 && st.pos < len(st.keys)
}
func zzItKey(it *rocksdb.Iterator) *rocksdb.Slice {
	s := &rocksdb.Slice{}
	st := zzIters[it]
	zzSlices[s] = st.keys[st.pos]
	return s
}
func zzItClose(it *rocksdb.Iterator)                { zzOpenIt-- }
func zzSliceData(s *rocksdb.Slice) []byte           { return zzSlices[s] }
func zzSliceSize(s *rocksdb.Slice) int              { return len(zzSlices[s]) }
func zzSliceFree(s *rocksdb.Slice)                  {}
func zzNewDefaultReadOptions() *rocksdb.ReadOptions { return &rocksdb.ReadOptions{} }

// codec contract for raft.Log (redirect targets of encodeRaftLog / decodeRaftLog)
func zzEncodeRaftLog(s *raftLog, in *raft.Log) ([]byte, error) {
	cp := *in
	cp.Data = append([]byte{}, in.Data...)
	id := len(zzBoxes)
	zzBoxes = append(zzBoxes, cp)
	return []byte{0xc2, byte(id >> 8), byte(id)}, nil
}

func zzDecodeRaftLog(s *raftLog, buf []byte, out *raft.Log) error {
	if len(buf) != 3 || buf[0] != 0xc2 {
		return errors.New("codec contract: undecodable")
	}
	v, ok := zzBoxes[int(buf[1])<<8|int(buf[2])].(raft.Log)
	if !ok {
		return errors.New("codec contract: type mismatch")
	}
	*out = v
	out.Data = append([]byte{}, v.Data...)
	return nil
}

// ---- harness ----

var zzTmpDirs []string

func zzOpenRaftLog() *raftLog {
	if rt.Symbolic() {
		zzRocksReset()
		zzBoxes = nil
		return &raftLog{db: &rocksdb.DB{}, ro: &rocksdb.ReadOptions{}, wo: &rocksdb.WriteOptions{},
			cfHandles: rocksdb.ColumnFamilyHandles{&rocksdb.ColumnFamilyHandle{}, &rocksdb.ColumnFamilyHandle{}, &rocksdb.ColumnFamilyHandle{}}}
	}
	dir, err := ioutil.TempDir("", "zzraftlog")
	if err != nil {
		panic(err)
	}
	zzTmpDirs = append(zzTmpDirs, dir)
	l, err := newRaftLog(dir)
	if err != nil {
		panic(err)
	}
	return l
}

func zzCloseRaftLog(l *raftLog) {
	if !rt.Symbolic() {
		l.Close()
		for _, d := range zzTmpDirs {
			os.RemoveAll(d)
		}
		zzTmpDirs = nil
	}
}

// indexes at the extremes of the key order plus free 64-bit ones
func zzIndex(name string) uint64 {
	// a free 64-bit index (the solver picks 0, 2^63, … where they matter) or the largest one
	if rt.Choose(name+"-kind", 2) == 0 {
		return rt.U64(name)
	}
	return 1<<64 - 1
}

// ZZC15Order: big-endian index keys order exactly like the indexes (full width, decided by z3).
func ZZC15Order() {
	a, b := rt.U64("a"), rt.U64("b")
	ka, kb := make([]byte, 8), make([]byte, 8)
	for i := 0; i < 8; i++ {
		ka[7-i] = byte(a >> (8 * uint(i)))
		kb[7-i] = byte(b >> (8 * uint(i)))
	}
	c := bytes.Compare(ka, kb)
	rt.Assert((c < 0) == (a < b), "key-order-is-index-order")
	rt.Assert((c == 0) == (a == b), "key-equality-is-index-equality")
}

// ZZC15Log: store-one / store-many / get / first / last / delete-range over symbolic indexes against a map model.
func ZZC15Log() {
	l := zzOpenRaftLog()
	defer zzCloseRaftLog(l)
	model := map[uint64]raft.Log{}
	n := 1 + rt.Choose("entries", rt.Param("ENTRIES", 3))
	var logs []*raft.Log
	for i := 0; i < n; i++ {
		lg := &raft.Log{Index: zzIndex(fmt.Sprintf("index%d", i)), Term: rt.U64(fmt.Sprintf("term%d", i)), Type: raft.LogType(rt.U8(fmt.Sprintf("type%d", i))), Data: rt.Bytes(fmt.Sprintf("data%d", i), 1)}
		logs = append(logs, lg)
	}
	if rt.Choose("bulk", 2) == 1 {
		rt.Assert(l.StoreLogs(logs) == nil, "store-logs-ok")
	} else {
		for _, lg := range logs {
			rt.Assert(l.StoreLog(lg) == nil, "store-log-ok")
		}
	}
	for _, lg := range logs {
		model[lg.Index] = *lg // the last one stored at an index wins
	}
	check := func(tag string) {
		var min, max uint64
		first := true
		for idx := range model {
			if first || idx < min {
				min = idx
			}
			if first || idx > max {
				max = idx
			}
			first = false
		}
		fi, err := l.FirstIndex()
		rt.Assert(err == nil, tag+":first-index-ok")
		la, err := l.LastIndex()
		rt.Assert(err == nil, tag+":last-index-ok")
		if first {
			rt.Assert(fi == 0 && la == 0, tag+":empty-store-reports-zero")
		} else {
			rt.Assert(fi == min, tag+":first-index-is-the-smallest")
			rt.Assert(la == max, tag+":last-index-is-the-largest")
		}
		probe := zzIndex(tag + "-probe")
		var got raft.Log
		err = l.GetLog(probe, &got)
		want, ok := model[probe]
		if ok {
			rt.Assert(err == nil, tag+":stored-entry-is-found")
			if err == nil {
				rt.Assert(got.Index == want.Index && got.Term == want.Term && got.Type == want.Type && bytes.Equal(got.Data, want.Data), tag+":entry-returned-intact")
			}
		} else {
			rt.Assert(err == raft.ErrLogNotFound, tag+":absent-entry-is-not-found")
		}
	}
	check("after-store")
	// delete an inclusive range
	lo, hi := zzIndex("del-min"), zzIndex("del-max")
	rt.Assume(lo <= hi)
	rt.Assert(l.DeleteRange(lo, hi) == nil, "delete-range-ok")
	for idx := range model {
		if idx >= lo && idx <= hi {
			delete(model, idx)
		}
	}
	check("after-delete")
}

// ZZC15Stable: the key/value settings round-trip and do not disturb the log.
func ZZC15Stable() {
	l := zzOpenRaftLog()
	defer zzCloseRaftLog(l)
	rt.Assert(l.StoreLog(&raft.Log{Index: 7, Term: 1, Data: []byte{1}}) == nil, "store")
	key := rt.Bytes("key", 1+rt.Choose("keylen", 2))
	val := rt.U64("value")
	_, err := l.Get(key)
	rt.Assert(err == ErrKeyNotFound, "unset-key-is-not-found")
	rt.Assert(l.SetUint64(key, val) == nil, "set-ok")
	got, err := l.GetUint64(key)
	rt.Assert(err == nil && got == val, "uint64-setting-round-trips")
	raw := rt.Bytes("raw", 2)
	rt.Assert(l.Set(key, raw) == nil, "set-ok")
	rb, err := l.Get(key)
	rt.Assert(err == nil && bytes.Equal(rb, raw), "setting-returns-last-value")
	fi, _ := l.FirstIndex()
	la, _ := l.LastIndex()
	rt.Assert(fi == 7 && la == 7, "settings-do-not-disturb-the-log")
	if rt.Symbolic() {
		rt.Assert(zzOpenIt == 0, "every-iterator-closed")
	}
}

// ZZC15Twin: reachability witness.
func ZZC15Twin() {
	l := zzOpenRaftLog()
	defer zzCloseRaftLog(l)
	l.StoreLog(&raft.Log{Index: 3})
	fi, _ := l.FirstIndex()
	rt.Assert(fi != 3, "twin")
}
