//go:build verif

package consensus

// In-package harness infrastructure for the FSM-level properties (C05–C11, C13
// command encoding). Injected by overlay only.

import (
	"bytes"
	"errors"
	"fmt"
	"io"
	"io/ioutil"
	"os"
	"time"

	"github.com/bbva/qed/balloon"
	"github.com/bbva/qed/balloon/history"
	"github.com/bbva/qed/balloon/hyper"
	"github.com/bbva/qed/crypto/hashing"
	"github.com/bbva/qed/log"
	"github.com/bbva/qed/protocol"
	"github.com/bbva/qed/storage"
	"github.com/bbva/qed/zzverif/models"
	"github.com/bbva/qed/zzverif/rt"
	"github.com/hashicorp/go-msgpack/codec"
	"github.com/hashicorp/raft"
)

const zzBits = 256

// ---- codec contract (engine redirect targets for encodeMsgPack / decodeMsgPack) ----

var zzBoxes []interface{}

func zzEncodeMsgPack(in interface{}) ([]byte, error) {
	var box interface{}
	switch v := in.(type) {
	case []hashing.Digest:
		c := make([]hashing.Digest, len(v))
		for i := range v {
			c[i] = append(hashing.Digest{}, v[i]...)
		}
		box = c
	case *fsmState:
		box = *v
	case *VersionMetadata:
		box = *v
	case *fsmSnapshot:
		box = *v
	default:
		return nil, errors.New("codec contract: unsupported type")
	}
	id := len(zzBoxes)
	zzBoxes = append(zzBoxes, box)
	return []byte{0xc1, byte(id >> 8), byte(id)}, nil
}

func zzDecodeMsgPack(buf []byte, out interface{}) error {
	if len(buf) != 3 || buf[0] != 0xc1 {
		return errors.New("codec contract: undecodable")
	}
	id := int(buf[1])<<8 | int(buf[2])
	if id >= len(zzBoxes) {
		return errors.New("codec contract: undecodable")
	}
	switch o := out.(type) {
	case *[]hashing.Digest:
		v, ok := zzBoxes[id].([]hashing.Digest)
		if !ok {
			return errors.New("codec contract: type mismatch")
		}
		c := make([]hashing.Digest, len(v))
		for i := range v {
			c[i] = append(hashing.Digest{}, v[i]...)
		}
		*o = c
	case *fsmState:
		v, ok := zzBoxes[id].(fsmState)
		if !ok {
			return errors.New("codec contract: type mismatch")
		}
		*o = v
	case *VersionMetadata:
		v, ok := zzBoxes[id].(VersionMetadata)
		if !ok {
			return errors.New("codec contract: type mismatch")
		}
		*o = v
	case *fsmSnapshot:
		v, ok := zzBoxes[id].(fsmSnapshot)
		if !ok {
			return errors.New("codec contract: type mismatch")
		}
		*o = v
	default:
		return errors.New("codec contract: unsupported target")
	}
	return nil
}

// The same contract one level down, for code that drives the msgpack library directly:
// redirect targets of codec.NewEncoder and (*codec.Encoder).Encode.
var zzEncW map[*codec.Encoder]io.Writer

func zzCodecNewEncoder(w io.Writer, h codec.Handle) *codec.Encoder {
	if zzEncW == nil {
		zzEncW = map[*codec.Encoder]io.Writer{}
	}
	e := &codec.Encoder{}
	zzEncW[e] = w
	return e
}

func zzCodecEncode(e *codec.Encoder, v interface{}) error {
	b, err := zzEncodeMsgPack(v)
	if err != nil {
		return err
	}
	_, err = zzEncW[e].Write(b)
	return err
}

// ---- replication model: committed entries are delivered to every live replica's real Apply in index order ----

type zzEntry struct {
	index uint64
	data  []byte
}

type zzCluster struct {
	nodes  []*RaftNode
	stores []*models.MemStore
	down   []bool
	log    []zzEntry
	next   uint64
}

var zzC *zzCluster

func zzNewCluster(replicas int) *zzCluster {
	models.ResetEvents()
	zzBoxes = nil
	c := &zzCluster{next: 1 + uint64(rt.Choose("first-index", 2))} // raft indexes start above 0 (1 is usually a configuration entry)
	for i := 0; i < replicas; i++ {
		st := models.NewMemStore()
		c.stores = append(c.stores, st)
		c.nodes = append(c.nodes, zzOpenNode(st))
		c.down = append(c.down, false)
	}
	zzC = c
	return c
}

// zzOpenNode builds a RaftNode over a store exactly as NewRaftNodeWithLogger does
// for the parts the FSM uses (balloon over the store, loadState), without Raft,
// network or files.
func zzOpenNode(st storage.ManagedStore) *RaftNode {
	n := &RaftNode{
		info:        &NodeInfo{NodeId: "n"},
		db:          st,
		hasherF:     models.EventHasherF(zzBits),
		snapshotsCh: make(chan *protocol.Snapshot, 4096),
		log:         log.L(),
		done:        make(chan struct{}),
	}
	b, err := balloon.NewBalloon(st, n.hasherF)
	if err != nil {
		panic(err)
	}
	n.balloon = b
	if err := n.loadState(); err != nil {
		panic(err)
	}
	zzReconcile(n, st)
	n.metrics = newRaftNodeMetrics(n)
	if !rt.Symbolic() && !noRaft {
		zzAttachRaft(n)
	}
	return n
}

// zzCurCovered is what the engine redirect of (*raftLog).LastIndex answers.
var zzCurCovered uint64

// zzCurExisting is what the engine redirect of raft.HasExistingState answers: whether the Raft
// directory next to the store being opened has been used by a node before.
var zzCurExisting bool

func zzHasExistingState(logs raft.LogStore, stable raft.StableStore, snaps raft.SnapshotStore) (bool, error) {
	return zzCurExisting, nil
}

// zzLastIndexModel is the engine redirect target of (*raftLog).LastIndex in the
// FSM-level harnesses: the Raft log next to the store is the ghost MemStore.Covered.
func zzLastIndexModel(l *raftLog) (uint64, error) { return zzCurCovered, nil }

// zzReconcile runs the start-up step that follows loadState in NewRaftNodeWithLogger
// (reconcileStateWithLog) against the Raft log that sits next to the store: under the
// engine the log is the ghost index, natively a real raftLog (RocksDB) holding an entry
// at that index and a real, empty file snapshot store.
func zzReconcile(n *RaftNode, st storage.ManagedStore) {
	covered := uint64(0)
	existing := false
	switch ms := st.(type) {
	case *models.MemStore:
		covered = ms.Covered
		existing = ms.Started || ms.Covered > 0
		ms.Started = true
	}
	// (looked up through an interface so that the harness still builds on a tree that has no such step)
	rc, has := interface{}(n).(interface{ reconcileStateWithLog() error })
	if !has {
		return
	}
	if rt.Symbolic() {
		zzCurCovered = covered
		zzCurExisting = existing
		if err := rc.reconcileStateWithLog(); err != nil {
			panic(err)
		}
		return
	}
	if nst := zzNative[st]; nst != nil {
		if last, _ := nst.logs.LastIndex(); last > covered {
			covered = last
		}
	}
	dir, err := ioutil.TempDir("", "zzraftlog")
	if err != nil {
		panic(err)
	}
	defer os.RemoveAll(dir)
	rl, err := newRaftLogOpts(raftLogOptions{Path: dir + "/wal", NoSync: true})
	if err != nil {
		panic(err)
	}
	if covered > 0 {
		if err := rl.StoreLog(&raft.Log{Index: covered, Term: 1, Type: raft.LogNoop}); err != nil {
			panic(err)
		}
	}
	snaps, err := raft.NewFileSnapshotStore(dir, 1, ioutil.Discard)
	if err != nil {
		panic(err)
	}
	n.raftLog, n.snapshots = rl, snaps
	err = rc.reconcileStateWithLog()
	n.raftLog, n.snapshots = nil, nil
	rl.Close()
	if err != nil {
		panic(err)
	}
}

func (c *zzCluster) deliver(i int, e zzEntry) interface{} {
	if e.index > c.stores[i].Covered {
		c.stores[i].Covered = e.index // Raft persists an entry before it applies it
	}
	return c.nodes[i].Apply(&raft.Log{Index: e.index, Term: 1, Type: raft.LogCommand, Data: e.data})
}

// zzPropose is the engine redirect target of (*RaftNode).propose: commit the
// command and apply it on every live replica; the proposer gets its own response.
func zzPropose(n *RaftNode, cmd *command) (interface{}, error) {
	c := zzC
	e := zzEntry{index: c.next, data: cmd.data}
	c.next++
	c.log = append(c.log, e)
	var resp interface{}
	for i, m := range c.nodes {
		if c.down[i] {
			continue
		}
		r := c.deliver(i, e)
		if m == n {
			resp = r
		}
	}
	return resp, nil
}

// zzAddBulk submits events through the public API: the real RaftNode.AddBulk.
// Under the engine propose is redirected to the replication model; natively
// (replay / validation) the node runs a real single-server hashicorp/raft over
// in-memory stores, so the very same code runs in both worlds.
func zzAddBulk(n *RaftNode, bulk [][]byte) ([]*balloon.Snapshot, error) {
	snaps, err := n.AddBulk(bulk)
	if !rt.Symbolic() && err == nil {
		zzNativeRecord(n)
	}
	return snaps, err
}

type zzNativeRaftState struct {
	logs  *raft.InmemStore
	snaps *raft.InmemSnapshotStore
	seen  uint64
}

var zzNative = map[storage.ManagedStore]*zzNativeRaftState{}

func zzAttachRaft(n *RaftNode) {
	st := zzNative[n.db]
	fresh := st == nil
	if fresh {
		st = &zzNativeRaftState{logs: raft.NewInmemStore(), snaps: raft.NewInmemSnapshotStore()}
		zzNative[n.db] = st
	}
	conf := raft.DefaultConfig()
	conf.LocalID = "n"
	conf.HeartbeatTimeout = 50 * time.Millisecond
	conf.ElectionTimeout = 50 * time.Millisecond
	conf.LeaderLeaseTimeout = 50 * time.Millisecond
	conf.CommitTimeout = 5 * time.Millisecond
	conf.LogOutput = ioutil.Discard
	addr, trans := raft.NewInmemTransport("")
	if fresh {
		if err := raft.BootstrapCluster(conf, st.logs, st.logs, st.snaps, trans, raft.Configuration{Servers: []raft.Server{{ID: conf.LocalID, Address: addr}}}); err != nil {
			panic(err)
		}
	}
	r, err := raft.NewRaft(conf, n, st.logs, st.logs, st.snaps, trans)
	if err != nil {
		panic(err)
	}
	deadline := time.Now().Add(10 * time.Second)
	for r.State() != raft.Leader {
		if time.Now().After(deadline) {
			panic("native raft: no leader")
		}
		time.Sleep(5 * time.Millisecond)
	}
	if err := r.Barrier(5 * time.Second).Error(); err != nil {
		panic(err)
	}
	n.raft = r
	n.applyTimeout = 10 * time.Second
}

// zzNativeRecord copies newly committed command entries into the model's log (for the replay op).
func zzNativeRecord(n *RaftNode) {
	st := zzNative[n.db]
	last, _ := st.logs.LastIndex()
	for i := st.seen + 1; i <= last; i++ {
		var l raft.Log
		if err := st.logs.GetLog(i, &l); err == nil && l.Type == raft.LogCommand {
			zzC.log = append(zzC.log, zzEntry{index: l.Index, data: l.Data})
		}
	}
	st.seen = last
}

func zzEvents(tag byte, m int) [][]byte {
	ev := make([][]byte, m)
	for i := range ev {
		ev[i] = []byte{tag, byte(i)}
		if i > 255 {
			ev[i] = []byte{tag + byte(i>>8), byte(i)} // distinct events (and digest prefixes) beyond 256 per request
		}
	}
	return ev
}

func zzTablesEqual(a, b *models.MemStore, label string) {
	for _, t := range []storage.Table{storage.HyperTable, storage.HyperCacheTable, storage.HistoryTable, storage.FSMStateTable} {
		x, y := a.Dump(t), b.Dump(t)
		rt.Assert(len(x) == len(y), label+":same-table-size")
		if len(x) != len(y) {
			continue
		}
		for i := range x {
			rt.Assert(bytes.Equal(x[i].Key, y[i].Key), label+":same-keys")
			if t != storage.FSMStateTable {
				rt.Assert(bytes.Equal(x[i].Value, y[i].Value), label+":same-values")
			}
		}
	}
}

// ---- C05: versions are assigned densely, in order, exactly once ----

// ZZC05Script: a symbolic script of adds (single / bulk), replayed entries, clean restarts and queries.
func ZZC05Script() {
	c := zzNewCluster(1)
	steps := 1 + rt.Choose("steps", rt.Param("STEPS", 3))
	maxBulk := rt.Param("BULK", 2)
	accepted := uint64(0)
	var all []*balloon.Snapshot
	var digests []hashing.Digest
	for s := 0; s < steps; s++ {
		n := c.nodes[0]
		switch rt.Choose(fmt.Sprintf("op%d", s), 4) {
		case 0: // add through the public API
			m := rt.Choose(fmt.Sprintf("bulk%d", s), maxBulk+1) // an empty bulk is a request the public API accepts
			var snaps []*balloon.Snapshot
			var err error
			if !rt.NoPanic(func() { snaps, err = zzAddBulk(n, zzEvents(byte(0x10+s), m)) }, "add-bulk") {
				return
			}
			if m == 0 {
				// an empty request may be refused; if it is acknowledged it assigns no version
				rt.Assert(err != nil || len(snaps) == 0, "empty-bulk-assigns-nothing")
				continue
			}
			rt.Assert(err == nil, "add-acknowledged")
			rt.Assert(len(snaps) == m, "one-snapshot-per-event")
			for i, sn := range snaps {
				rt.Assert(sn.Version == accepted+uint64(i), "versions-dense-in-request-order")
				d := n.hasherF().Do(zzEvents(byte(0x10+s), m)[i])
				rt.Assert(bytes.Equal(sn.EventDigest, d), "snapshot-carries-its-event-digest")
				digests = append(digests, d)
			}
			all = append(all, snaps...)
			accepted += uint64(m)
		case 1: // an already applied entry is delivered again (log replay)
			if len(c.log) == 0 {
				continue
			}
			k := rt.Choose(fmt.Sprintf("replay%d", s), len(c.log))
			before := n.balloon.Version()
			if !rt.NoPanic(func() { c.deliver(0, c.log[k]) }, "replayed-entry") {
				return
			}
			rt.Assert(n.balloon.Version() == before, "replayed-entry-changes-nothing")
		case 2: // clean restart on the same data
			n.Close(true)
			c.stores[0].Closed = false
			c.nodes[0] = zzOpenNode(c.stores[0])
			if rt.Symbolic() {
				// Raft re-delivers its log after a restart (natively the real Raft does so while
				// the node is opened): every entry is already applied and must change nothing
				for _, e := range c.log {
					ent := e
					if !rt.NoPanic(func() { c.deliver(0, ent) }, "log-replay-after-restart") {
						return
					}
				}
			}
			rt.Assert(c.nodes[0].balloon.Version() == accepted, "version-survives-restart")
			rt.Reach("restarted")
		case 3: // query
			if accepted == 0 {
				continue
			}
			e := rt.Choose(fmt.Sprintf("q%d", s), int(accepted))
			mp, err := n.QueryDigestMembership(digests[e])
			rt.Assert(err == nil, "query-ok")
			if err == nil {
				rt.Assert(mp.CurrentVersion == accepted-1, "current-version=accepted-1")
				rt.Assert(mp.Exists && mp.ActualVersion == uint64(e), "reported-version-is-the-assigned-one")
			}
		}
		rt.Assert(c.nodes[0].balloon.Version() == accepted, "version-counter=accepted")
	}
	for i, sn := range all {
		rt.Assert(sn.Version == uint64(i), "no-version-skipped-or-reissued")
	}
}

// ZZC05Counter: AddBulk from an arbitrary 64-bit version assigns v, v+1, … (trees stubbed out by entry-level redirects).
func zzStubHistoryAddBulkT(t *history.HistoryTree, ds []hashing.Digest, v uint64) ([]hashing.Digest, []*storage.Mutation, error) {
	out := make([]hashing.Digest, len(ds))
	for i := range out {
		out[i] = make([]byte, 32)
	}
	return out, nil, nil
}

func zzStubHyperAddBulkT(t *hyper.HyperTree, ds []hashing.Digest, v uint64) (hashing.Digest, []*storage.Mutation, error) {
	return make([]byte, 32), nil, nil
}

func zzStubHistoryAddT(t *history.HistoryTree, d hashing.Digest, v uint64) (hashing.Digest, []*storage.Mutation, error) {
	return make([]byte, 32), nil, nil
}

func zzStubHyperAddT(t *hyper.HyperTree, d hashing.Digest, v uint64) (hashing.Digest, []*storage.Mutation, error) {
	return make([]byte, 32), nil, nil
}

func ZZC05Counter() {
	st := models.NewMemStore()
	v := rt.U64("version")
	if v > 0 {
		// the last persisted history leaf is (v-1, height 0): RefreshVersion must yield v
		key := make([]byte, 10)
		for i := 0; i < 8; i++ {
			key[7-i] = byte((v - 1) >> (8 * uint(i)))
		}
		st.Mutate([]*storage.Mutation{{Table: storage.HistoryTable, Key: key, Value: make([]byte, 32)}}, nil)
	}
	b, err := balloon.NewBalloon(st, rt.HasherF(zzBits))
	rt.Assert(err == nil, "open")
	rt.Assert(b.Version() == v, "refresh-version-from-last-leaf")
	m := rt.Choose("bulk", rt.Param("BULK", 4)+1)
	rt.Assume(v <= ^uint64(0)-uint64(m))
	ds := make([]hashing.Digest, m)
	for i := range ds {
		ds[i] = rt.Bytes(fmt.Sprintf("d%d", i), 32)
	}
	var snaps []*balloon.Snapshot
	if m == 1 && rt.Choose("single", 2) == 1 {
		s, _, err := b.Add(ds[0])
		rt.Assert(err == nil, "add-ok")
		snaps = []*balloon.Snapshot{s}
	} else {
		snaps, _, err = b.AddBulk(ds)
		rt.Assert(err == nil, "addbulk-ok")
	}
	rt.Assert(len(snaps) == m, "one-snapshot-per-event")
	for i, s := range snaps {
		rt.Assert(s.Version == v+uint64(i), "version=v+i")
		rt.Assert(bytes.Equal(s.EventDigest, ds[i]), "event-digest")
	}
	rt.Assert(b.Version() == v+uint64(m), "post-version=v+m")
}

// ZZC05Twin: reachability witness.
func ZZC05Twin() {
	c := zzNewCluster(1)
	s, err := zzAddBulk(c.nodes[0], zzEvents(0x10, 1))
	rt.Assert(err != nil || s[0].Version != 0, "twin")
}

// ZZC17Issued (C17, first hop): every snapshot the node issues is handed to the sender's
// channel exactly once, in order, with the content that was acknowledged to the client.
func ZZC17Issued() {
	c := zzNewCluster(1)
	n := c.nodes[0]
	var all []*balloon.Snapshot
	reqs := 1 + rt.Choose("requests", rt.Param("REQUESTS", 2))
	for k := 0; k < reqs; k++ {
		m := 1 + rt.Choose(fmt.Sprintf("bulk%d", k), rt.Param("BULK", 3))
		snaps, err := zzAddBulk(n, zzEvents(byte(0x10+k), m))
		if err != nil || len(snaps) != m {
			rt.Assert(false, "add-acknowledged")
			return
		}
		all = append(all, snaps...)
	}
	rt.Assert(len(n.snapshotsCh) == len(all), "one-snapshot-queued-per-issued-snapshot")
	for i := range all {
		if len(n.snapshotsCh) == 0 {
			break
		}
		p := <-n.snapshotsCh
		rt.Assert(p != nil && p.Version == all[i].Version, "queued-in-order-of-issue")
		if p != nil {
			rt.Assert(bytes.Equal(p.EventDigest, all[i].EventDigest) && bytes.Equal(p.HistoryDigest, all[i].HistoryDigest) && bytes.Equal(p.HyperDigest, all[i].HyperDigest), "queued-snapshot-is-the-issued-one")
		}
	}
}
