//go:build verif

package consensus

// C16 (FSM level): a backup restores to exactly the log as of the backup's version.
// The real RaftNode.CreateBackup / ListBackups / DeleteBackup, the real insertion
// path and a node opened on the restored store the way a start-up does (balloon
// over the store, loadState, reconcileStateWithLog) run over the store model,
// whose backup operations follow the BackupEngine contract (models/managed.go;
// the RocksDB glue itself is checked over the wrapper model by ZZC16Rocks).

import (
	"fmt"
	"strconv"

	"github.com/bbva/qed/balloon"
	"github.com/bbva/qed/crypto/hashing"
	"github.com/bbva/qed/storage"
	"github.com/bbva/qed/zzverif/models"
	"github.com/bbva/qed/zzverif/rt"
)

// zzBackupGhost is what the harness remembers about a backup it asked for.
type zzBackupGhost struct {
	id      int64
	version uint64 // the log was at this version (events 0..version) when it was taken
	deleted bool
}

func zzLive(ghosts []zzBackupGhost) int {
	n := 0
	for _, b := range ghosts {
		if !b.deleted {
			n++
		}
	}
	return n
}

// zzCheckListing: listing shows every existing backup, with the version it was taken at, and nothing else.
func zzCheckListing(n *RaftNode, ghosts []zzBackupGhost, label string) {
	infos := n.ListBackups()
	rt.Assert(len(infos) == zzLive(ghosts), label+":one-line-per-existing-backup")
	for _, b := range ghosts {
		found := 0
		for _, in := range infos {
			if in != nil && in.ID == b.id {
				found++
				rt.Assert(in.Metadata == strconv.FormatUint(b.version, 10), label+":backup-records-its-version")
			}
		}
		if b.deleted {
			rt.Assert(found == 0, label+":deleted-backup-is-gone")
		} else {
			rt.Assert(found == 1, label+":existing-backup-listed-once")
		}
	}
}

// zzNewBackupID finds the identifier the store gave to the backup just taken.
func zzNewBackupID(n *RaftNode, ghosts []zzBackupGhost) (int64, bool) {
	for _, in := range n.ListBackups() {
		if in == nil {
			continue
		}
		known := false
		for _, b := range ghosts {
			if b.id == in.ID {
				known = true
			}
		}
		if !known {
			return in.ID, true
		}
	}
	return 0, false
}

// zzCheckRestored: a node started on the restored store is the log as of version v.
func zzCheckRestored(orig *zzCluster, st *models.MemStore, b zzBackupGhost, issued []*balloon.Snapshot, digs []hashing.Digest, label string) {
	dir := fmt.Sprintf("restored-%d", b.id)
	err := st.RestoreFromBackup(uint32(b.id), dir, dir)
	rt.Assert(err == nil, label+":restore-ok")
	rs := models.OpenRestored(dir)
	if err != nil || rs == nil {
		return
	}
	// a fresh node on the restored directory: new (empty) Raft log, new cluster
	c := &zzCluster{next: 1 + uint64(rt.Choose("restored-first-index", 2))}
	var r *RaftNode
	if !rt.NoPanic(func() { r = zzOpenNode(rs) }, label+":start-on-restored-store") {
		return
	}
	c.stores, c.nodes, c.down = []*models.MemStore{rs}, []*RaftNode{r}, []bool{false}
	zzC = c
	defer func() { zzC = orig }()
	v := b.version
	if rt.Choose("restored-node-restarted-before-its-first-add", 2) == 1 {
		// the operator starts the restored node, stops it without adding anything, starts it again
		r.Close(true)
		rs.Closed = false
		if !rt.NoPanic(func() { r = zzOpenNode(rs) }, label+":second-start-on-restored-store") {
			return
		}
		c.nodes[0] = r
		rt.Reach("restored-node-restarted-before-its-first-add")
	}
	rt.Assert(r.balloon.Version() == v+1, label+":restored-log-is-at-the-backup-version")
	// proves membership and consistency for the first v+1 events against the snapshots originally issued
	snap := &balloon.Snapshot{HistoryDigest: issued[v].HistoryDigest, HyperDigest: issued[v].HyperDigest, Version: v}
	for e := 0; e <= int(v); e++ {
		mp, err := r.QueryDigestMembership(digs[e])
		rt.Assert(err == nil, label+":membership-query-ok")
		if err == nil {
			rt.Assert(mp.Exists, label+":backed-up-event-exists")
			rt.Assert(mp.CurrentVersion == v, label+":restored-current-version")
			rt.Assert(mp.DigestVerify(digs[e], snap), label+":membership-proof-verifies-against-issued-snapshot")
		}
	}
	for i := 0; i < int(v); i++ {
		ip, err := r.QueryConsistency(uint64(i), v)
		rt.Assert(err == nil, label+":consistency-query-ok")
		if err == nil {
			rt.Assert(ip.Verify(issued[i], issued[v]), label+":consistency-proof-verifies-against-issued-snapshots")
		}
	}
	// knows nothing of events added after the backup
	for later := int(v) + 1; later < len(digs); later++ {
		mp, err := r.QueryDigestMembership(digs[later])
		if err == nil {
			rt.Assert(!mp.Exists, label+":knows-nothing-of-later-events")
		}
		_, err = r.QueryConsistency(0, uint64(later))
		rt.Assert(err != nil, label+":no-later-version")
	}
	e := int(v) / 2
	// assigns v+1 to the next event (through the public API, on the new Raft log), exactly once
	m := 1 + rt.Choose("restored-bulk", rt.Param("BULK", 2))
	var snaps []*balloon.Snapshot
	if !rt.NoPanic(func() { snaps, err = zzAddBulk(r, zzEvents(0x70, m)) }, label+":add-on-restored-node") {
		return
	}
	rt.Assert(err == nil, label+":add-on-restored-node-acknowledged")
	if err != nil {
		return
	}
	rt.Assert(len(snaps) == m, label+":one-snapshot-per-event")
	for k, s := range snaps {
		rt.Assert(s.Version == v+1+uint64(k), label+":next-event-gets-v+1")
	}
	rt.Assert(r.balloon.Version() == v+1+uint64(m), label+":version-advances")
	if len(snaps) == m {
		last := snaps[m-1]
		mp, err := r.QueryDigestMembership(digs[e])
		rt.Assert(err == nil, label+":membership-query-after-add-ok")
		if err == nil {
			rt.Assert(mp.DigestVerify(digs[e], last), label+":old-event-verifies-against-the-new-snapshot")
		}
		ip, err := r.QueryConsistency(v, last.Version)
		rt.Assert(err == nil, label+":consistency-across-the-restore-ok")
		if err == nil {
			rt.Assert(ip.Verify(issued[v], last), label+":new-snapshot-is-consistent-with-the-backed-up-log")
		}
	}
	// the restored node's second request and a restart on its own data
	snaps2, err := zzAddBulk(r, zzEvents(0x71, 1))
	rt.Assert(err == nil && len(snaps2) == 1 && snaps2[0].Version == v+1+uint64(m), label+":second-request-continues-the-sequence")
	r.Close(true)
	rs.Closed = false
	var r2 *RaftNode
	if !rt.NoPanic(func() { r2 = zzOpenNode(rs) }, label+":restart-of-the-restored-node") {
		return
	}
	c.nodes[0] = r2
	rt.Assert(r2.balloon.Version() == v+2+uint64(m), label+":restored-node-restarts-at-its-version")
	if len(c.log) > 0 {
		// Raft replays its log from some index not above the last applied + 1: every entry
		// delivered again must change nothing (so any suffix of the log changes nothing)
		for k := 0; k < len(c.log); k++ {
			ent := c.log[k]
			if !rt.NoPanic(func() { c.deliver(0, ent) }, label+":replay-on-the-restored-node") {
				return
			}
			rt.Assert(r2.balloon.Version() == v+2+uint64(m), label+":replay-applies-nothing-twice")
		}
	}
	// the original store is untouched by whatever the restored node did
	rt.Reach("restored-node-continued")
}

// ZZC16Restore: a symbolic script of adds, backups and deletions; then every listing
// obligation and a restore of a symbolically chosen existing backup.
func ZZC16Restore() {
	c := zzNewCluster(1)
	n, st := c.nodes[0], c.stores[0]
	entries := 1 + rt.Choose("entries", rt.Param("ENTRIES", 3))
	maxBackups := rt.Param("BACKUPS", 2)
	var issued []*balloon.Snapshot
	var digs []hashing.Digest
	var ghosts []zzBackupGhost
	// a few requests before the script proper (no choices): the log the backups are taken on is
	// not a brand-new one, its applied index is well above what a fresh Raft log starts with
	for k := 0; k < rt.Param("PRE", 0); k++ {
		snaps, err := zzAddBulk(n, zzEvents(byte(0x08+k), 1))
		if err != nil || len(snaps) != 1 {
			rt.Assert(false, "add-acknowledged")
			return
		}
		issued = append(issued, snaps[0])
		digs = append(digs, n.hasherF().Do(zzEvents(byte(0x08+k), 1)[0]))
	}
	for k := 0; k <= entries; k++ {
		if len(issued) > 0 && len(ghosts) < maxBackups && rt.Choose(fmt.Sprintf("backup-before%d", k), 2) == 1 {
			var err error
			if !rt.NoPanic(func() { err = n.CreateBackup() }, "create-backup") {
				return
			}
			rt.Assert(err == nil, "create-backup-ok")
			id, ok := zzNewBackupID(n, ghosts)
			rt.Assert(ok, "new-backup-is-listed")
			if !ok {
				return
			}
			ghosts = append(ghosts, zzBackupGhost{id: id, version: uint64(len(issued) - 1)})
			zzCheckListing(n, ghosts, "after-backup")
		}
		if len(ghosts) > 0 && zzLive(ghosts) == len(ghosts) && rt.Choose(fmt.Sprintf("delete-before%d", k), 2) == 1 {
			d := rt.Choose("delete-which", len(ghosts)+1)
			if d == len(ghosts) {
				// any 32-bit identifier that no backup has: refused, nothing removed
				x := rt.U32("unknown-backup-id")
				for _, g := range ghosts {
					rt.Assume(int64(x) != g.id)
				}
				err := n.DeleteBackup(x)
				rt.Assert(err != nil, "delete-unknown-backup-refused")
			} else {
				err := n.DeleteBackup(uint32(ghosts[d].id))
				rt.Assert(err == nil, "delete-backup-ok")
				ghosts[d].deleted = true
			}
			zzCheckListing(n, ghosts, "after-delete")
		}
		if k == entries {
			break
		}
		m := 1 + rt.Choose(fmt.Sprintf("bulk%d", k), rt.Param("BULK", 2))
		snaps, err := zzAddBulk(n, zzEvents(byte(0x10+k), m))
		if err != nil || len(snaps) != m {
			rt.Assert(false, "add-acknowledged")
			return
		}
		for i, s := range snaps {
			issued = append(issued, s)
			digs = append(digs, n.hasherF().Do(zzEvents(byte(0x10+k), m)[i]))
		}
	}
	zzCheckListing(n, ghosts, "final")
	if zzLive(ghosts) == 0 {
		return
	}
	var live []zzBackupGhost
	for _, b := range ghosts {
		if !b.deleted {
			live = append(live, b)
		}
	}
	b := live[rt.Choose("restore-which", len(live))]
	before := n.balloon.Version()
	zzCheckRestored(c, st, b, issued, digs, "restored")
	// the original log goes on unaffected
	rt.Assert(n.balloon.Version() == before, "original-unaffected-by-the-restore")
	for _, d := range ghosts {
		if d.deleted {
			rt.Assert(st.RestoreFromBackup(uint32(d.id), "nowhere", "nowhere") != nil, "deleted-backup-cannot-be-restored")
		}
	}
}

// ZZC16InFlight: a backup requested while an insertion is between updating the
// balloon and writing the store (or right after the write). Whatever version the
// backup records must be the version of what it contains.
func ZZC16InFlight() {
	c := zzNewCluster(1)
	n, st := c.nodes[0], c.stores[0]
	prior := 1 + rt.Choose("prior-events", rt.Param("PRIOR", 2))
	var issued []*balloon.Snapshot
	var digs []hashing.Digest
	add := func(tag byte) bool {
		snaps, err := zzAddBulk(n, zzEvents(tag, 1))
		if err != nil || len(snaps) != 1 {
			rt.Assert(false, "add-acknowledged")
			return false
		}
		issued = append(issued, snaps[0])
		digs = append(digs, n.hasherF().Do(zzEvents(tag, 1)[0]))
		return true
	}
	for k := 0; k < prior; k++ {
		if !add(byte(0x10 + k)) {
			return
		}
	}
	when := rt.Choose("when", 2) // 0: between computing the insertion and persisting it, 1: right after persisting
	deferred, ran := false, false
	backup := func() {
		ran = true
		if err := n.CreateBackup(); err != nil {
			panic(err)
		}
	}
	probe := func() {
		if !rt.Concurrently(backup) {
			deferred = true
		}
	}
	if when == 0 {
		st.BeforeMutate = probe
	} else {
		st.AfterMutate = probe
	}
	if !add(0x40) {
		return
	}
	rt.Join()
	if deferred && rt.Symbolic() {
		backup()
	}
	rt.Cover(deferred, "backup-had-to-wait")
	rt.Assert(ran || deferred, "backup-ran")
	infos := n.ListBackups()
	rt.Assert(len(infos) == 1, "one-backup")
	if len(infos) != 1 {
		return
	}
	v, err := strconv.ParseUint(infos[0].Metadata, 10, 64)
	rt.Assert(err == nil, "metadata-is-a-version")
	if err != nil || int(v) >= len(issued) {
		rt.Assert(int(v) < len(issued), "recorded-version-was-issued")
		return
	}
	zzCheckRestored(c, st, zzBackupGhost{id: infos[0].ID, version: v}, issued, digs, "in-flight-backup")
}

// ZZC16Twin: reachability witness.
func ZZC16Twin() {
	c := zzNewCluster(1)
	n, st := c.nodes[0], c.stores[0]
	zzAddBulk(n, zzEvents(0x10, 1))
	n.CreateBackup()
	zzAddBulk(n, zzEvents(0x11, 1))
	infos := n.ListBackups()
	st.RestoreFromBackup(uint32(infos[0].ID), "twin", "twin")
	r := zzOpenNodeNoRaft(models.OpenRestored("twin"))
	rt.Assert(r.balloon.Version() != 1, "twin")
}

var _ = storage.HistoryTable
