//go:build verif

package consensus

// FSM-level harnesses for C06–C10.

import (
	"bytes"
	"fmt"
	"io"

	"github.com/bbva/qed/balloon"
	"github.com/bbva/qed/crypto/hashing"
	"github.com/bbva/qed/storage"
	"github.com/bbva/qed/zzverif/models"
	"github.com/bbva/qed/zzverif/rt"
	"github.com/hashicorp/raft"
	"github.com/prometheus/client_golang/prometheus"
	"google.golang.org/grpc"
	"time"
)

// zzGroup: a cluster whose entries are delivered by calling the real Apply of
// every live replica directly (no Raft in either world).
type zzGroup struct {
	nodes  []*RaftNode
	stores []*models.MemStore
	down   []bool
	log    []zzEntry
	next   uint64
	snaps  [][]*balloon.Snapshot // per replica: snapshots it computed, by version
	digs   []hashing.Digest
}

func zzNewGroup(replicas int) *zzGroup {
	models.ResetEvents()
	zzBoxes = nil
	g := &zzGroup{next: 2}
	for i := 0; i < replicas; i++ {
		st := models.NewMemStore()
		g.stores = append(g.stores, st)
		g.nodes = append(g.nodes, zzOpenNodeNoRaft(st))
		g.down = append(g.down, false)
		g.snaps = append(g.snaps, nil)
	}
	return g
}

func zzOpenNodeNoRaft(st *models.MemStore) *RaftNode {
	noRaft = true
	defer func() { noRaft = false }()
	return zzOpenNode(st)
}

var noRaft bool

// commit appends an entry with m fresh events to the replicated log and applies it on every live replica.
func (g *zzGroup) commit(tag byte, m int) { g.commitEvents(zzEvents(tag, m)) }

// commitEvents appends an entry with the given events to the replicated log and applies it on every live replica.
func (g *zzGroup) commitEvents(events [][]byte) {
	var hs []hashing.Digest
	h := models.EventHasherF(zzBits)()
	for _, e := range events {
		hs = append(hs, h.Do(e))
	}
	cmd := newCommand(addEventCommandType)
	if err := cmd.encode(hs); err != nil {
		panic(err)
	}
	e := zzEntry{index: g.next, data: cmd.data}
	g.next++
	g.log = append(g.log, e)
	g.digs = append(g.digs, hs...)
	for i := range g.nodes {
		if !g.down[i] {
			g.apply(i, e)
		}
	}
}

func (g *zzGroup) apply(i int, e zzEntry) {
	if e.index > g.stores[i].Covered {
		g.stores[i].Covered = e.index // Raft persists an entry before it applies it
	}
	r := g.nodes[i].Apply(&raft.Log{Index: e.index, Term: 1, Type: raft.LogCommand, Data: e.data})
	if fr, ok := r.(*fsmResponse); ok && fr != nil && fr.err == nil {
		if ss, ok := fr.val.([]*balloon.Snapshot); ok {
			for _, s := range ss {
				for uint64(len(g.snaps[i])) <= s.Version {
					g.snaps[i] = append(g.snaps[i], nil)
				}
				g.snaps[i][s.Version] = s
			}
		}
	}
}

// reopen restarts replica i on its own (durable) data.
func (g *zzGroup) reopen(i int) {
	g.stores[i].Closed = false
	g.stores[i].CrashAfter = -1
	g.nodes[i] = zzOpenNodeNoRaft(g.stores[i])
	g.down[i] = false
}

func zzSameSnapshot(a, b *balloon.Snapshot, label string) {
	rt.Assert(a != nil && b != nil, label+":both-issued")
	if a == nil || b == nil {
		return
	}
	rt.Assert(a.Version == b.Version, label+":same-version")
	rt.Assert(bytes.Equal(a.HistoryDigest, b.HistoryDigest), label+":same-history-digest")
	rt.Assert(bytes.Equal(a.HyperDigest, b.HyperDigest), label+":same-hyper-digest")
	rt.Assert(bytes.Equal(a.EventDigest, b.EventDigest), label+":same-event-digest")
}

// zzProofsVerify: proofs served by replica i verify against the reference snapshots.
func zzProofsVerify(n *RaftNode, ref []*balloon.Snapshot, digs []hashing.Digest, label string) {
	cur := len(ref) - 1
	if cur < 0 {
		return
	}
	e := rt.Choose("proof-event", len(ref))
	mp, err := n.QueryDigestMembership(digs[e])
	rt.Assert(err == nil, label+":membership-query-ok")
	if err == nil {
		snap := &balloon.Snapshot{HistoryDigest: ref[cur].HistoryDigest, HyperDigest: ref[cur].HyperDigest, Version: uint64(cur)}
		rt.Assert(mp.DigestVerify(digs[e], snap), label+":membership-proof-verifies")
	}
	if cur >= 1 {
		i := rt.Choose("proof-start", cur+1)
		ip, err := n.QueryConsistency(uint64(i), uint64(cur))
		rt.Assert(err == nil, label+":consistency-query-ok")
		if err == nil {
			rt.Assert(ip.Verify(ref[i], ref[cur]), label+":consistency-proof-verifies")
		}
	}
}

// ---- C08: stopping and restarting a node is invisible and never leaks resources ----

func ZZC08Restart() {
	g := zzNewGroup(2) // 0: never stopped, 1: stopped and reopened at a symbolic point
	n := 1 + rt.Choose("entries", rt.Param("ENTRIES", 3))
	stopAt := rt.Choose("stop-at", n+1) // before entry stopAt (== n: after the last one)
	for k := 0; k <= n; k++ {
		if k == stopAt {
			st := g.stores[1]
			ok := rt.NoPanic(func() { g.nodes[1].Close(true) }, "close")
			if !ok {
				return
			}
			rt.Assert(st.Closed, "close-closes-the-store")
			rt.Assert(!st.ClosedWithOpenReaders, "close-with-every-reader-released")
			rt.Assert(st.OpenReaders == 0, "no-reader-left-open")
			g.reopen(1)
			rt.Reach("reopened")
			// Raft re-delivers its log after a restart, from some index not above the last applied + 1
			from := rt.Choose("replay-from", len(g.log)+1)
			before := g.nodes[1].balloon.Version()
			for r := from; r < len(g.log); r++ {
				ent := g.log[r]
				if !rt.NoPanic(func() { g.apply(1, ent) }, "log-replay-after-restart") {
					return
				}
			}
			rt.Assert(g.nodes[1].balloon.Version() == before, "log-replay-after-restart-changes-nothing")
		}
		if k == n {
			break
		}
		g.commit(byte(0x10+k), 1+rt.Choose(fmt.Sprintf("bulk%d", k), rt.Param("BULK", 2)))
	}
	rt.Assert(g.nodes[0].balloon.Version() == g.nodes[1].balloon.Version(), "same-version")
	for v := range g.snaps[0] {
		if v < len(g.snaps[1]) && g.snaps[1][v] != nil {
			zzSameSnapshot(g.snaps[0][v], g.snaps[1][v], "after-restart")
		}
	}
	zzTablesEqual(g.stores[0], g.stores[1], "after-restart")
	zzProofsVerify(g.nodes[1], g.snaps[0], g.digs, "restarted-node")
}

// ---- C07: any crash recovers to a prefix of the committed log, each entry applied once ----

func ZZC07Crash() {
	g := zzNewGroup(2) // 0: reference that never crashes, 1: crashes
	n := 1 + rt.Choose("entries", rt.Param("ENTRIES", 3))
	// the process dies right after its k-th store write became durable (k may be 0)
	g.stores[1].CrashAfter = rt.Choose("crash-after-write", n+1)
	var bulks []int
	for k := 0; k < n; k++ {
		m := 1 + rt.Choose(fmt.Sprintf("bulk%d", k), rt.Param("BULK", 2))
		bulks = append(bulks, m)
		g.commit(byte(0x10+k), m)
	}
	acked := g.snaps[1] // what replica 1 acknowledged before dying (some of it was never persisted)
	durable := g.stores[1].CrashAfter
	if durable > n {
		durable = n
	}
	// restart on what survived, then Raft replays the log from some index not above the last applied + 1
	g.snaps[1] = nil
	g.reopen(1)
	rt.Reach("restarted-after-crash")
	persisted := uint64(0)
	for k := 0; k < durable; k++ {
		persisted += uint64(bulks[k])
	}
	rt.Assert(g.nodes[1].balloon.Version() == persisted, "recovers-to-a-prefix-of-the-committed-log")
	from := rt.Choose("replay-from", durable+1)
	for k := from; k < n; k++ {
		ok := rt.NoPanic(func() { g.apply(1, g.log[k]) }, "replay-after-crash")
		if !ok {
			return
		}
	}
	// one more entry, applied by both
	g.commit(0x40, 1)
	rt.Assert(g.nodes[0].balloon.Version() == g.nodes[1].balloon.Version(), "same-version-after-recovery")
	last := len(g.snaps[0]) - 1
	zzSameSnapshot(g.snaps[0][last], g.snaps[1][last], "after-recovery")
	for v := range g.snaps[1] {
		if g.snaps[1][v] != nil {
			zzSameSnapshot(g.snaps[0][v], g.snaps[1][v], "re-applied-entry")
		}
	}
	zzTablesEqual(g.stores[0], g.stores[1], "after-recovery")
	// every snapshot acknowledged before the crash is still verifiable afterwards
	for v, s := range acked {
		if s != nil {
			zzSameSnapshot(g.snaps[0][v], s, "acknowledged-before-crash")
		}
	}
	zzProofsVerify(g.nodes[1], g.snaps[0], g.digs, "recovered-node")
}

// ---- C06: replicas agree; any replica's proofs verify against the leader's snapshots ----

func ZZC06Replicas() {
	g := zzNewGroup(3) // 0 is the leader whose snapshots clients hold
	n := 1 + rt.Choose("entries", rt.Param("ENTRIES", 3))
	downAt := rt.Choose("follower-down-at", n+1)
	upAt := downAt + rt.Choose("follower-up-after", n+1-downAt)
	for k := 0; k < n; k++ {
		if k == downAt {
			g.nodes[1].Close(true)
			g.down[1] = true
		}
		if k == upAt && g.down[1] {
			g.reopen(1)
			// catch up by log replay, from any index not above the last applied + 1
			from := rt.Choose("catch-up-from", downAt+1)
			for r := from; r < len(g.log); r++ {
				g.apply(1, g.log[r])
			}
		}
		g.commit(byte(0x10+k), 1+rt.Choose(fmt.Sprintf("bulk%d", k), rt.Param("BULK", 2)))
	}
	if g.down[1] {
		g.reopen(1)
		from := rt.Choose("catch-up-from", downAt+1)
		for r := from; r < len(g.log); r++ {
			g.apply(1, g.log[r])
		}
	}
	for i := 1; i < 3; i++ {
		rt.Assert(g.nodes[i].balloon.Version() == g.nodes[0].balloon.Version(), "same-version")
		zzTablesEqual(g.stores[0], g.stores[i], "replica")
		for v := range g.snaps[i] {
			if g.snaps[i][v] != nil {
				zzSameSnapshot(g.snaps[0][v], g.snaps[i][v], "replica")
			}
		}
	}
	zzProofsVerify(g.nodes[1+rt.Choose("served-by", 2)], g.snaps[0], g.digs, "follower")
}

// ---- C09: a follower restored by state transfer converges to the leader's state ----

type zzStream struct {
	grpc.ServerStream
	buf []byte
}

func (s *zzStream) Send(c *Chunk) error {
	s.buf = append(s.buf, c.Content...)
	return nil
}

type zzReadCloser struct {
	data []byte
	off  int
}

func (r *zzReadCloser) Read(p []byte) (int, error) {
	if r.off >= len(r.data) {
		return 0, io.EOF
	}
	n := copy(p, r.data[r.off:])
	r.off += n
	return n, nil
}
func (r *zzReadCloser) Close() error { return nil }

var zzLeader *RaftNode

// zzAttemptToFetchSnapshot is the engine redirect target of (*RaftNode).attemptToFetchSnapshot:
// the leader's real FetchSnapshot (its validation closure included) streams into a buffer.
func zzAttemptToFetchSnapshot(n *RaftNode, lastSeqNum, lastAppliedVersion uint64) (io.ReadCloser, error) {
	s := &zzStream{}
	err := zzLeader.FetchSnapshot(&FetchSnapshotRequest{LastAppliedVersion: lastAppliedVersion, StartSeqNum: n.db.LastWALSequenceNumber(), EndSeqNum: lastSeqNum}, s)
	if err != nil {
		return nil, err
	}
	return &zzReadCloser{data: s.buf}, nil
}

func zzRestore(n *RaftNode, leader *RaftNode) error {
	zzLeader = leader
	fs, err := leader.Snapshot()
	if err != nil {
		return err
	}
	enc, err := fs.(*fsmSnapshot).encode()
	if err != nil {
		return err
	}
	if rt.Symbolic() {
		n.raft = &raft.Raft{} // "not restoring on start-up": the transfer is fetched from the leader
		err = n.Restore(&zzReadCloser{data: enc})
		n.raft = nil
		return err
	}
	// natively the gRPC fetch cannot be redirected: do the fetch + load by hand, then the real Restore (start-up flavour)
	snap := fs.(*fsmSnapshot)
	reader, err := zzAttemptToFetchSnapshot(n, snap.LastSeqNum, n.state.BalloonVersion)
	if err != nil {
		return err
	}
	if err := n.db.LoadSnapshot(reader); err != nil {
		return err
	}
	return n.Restore(&zzReadCloser{data: enc})
}

func ZZC09Transfer() {
	g := zzNewGroup(2) // 0 leader, 1 follower
	j := 1 + rt.Choose("leader-entries", rt.Param("ENTRIES", 3))
	i := rt.Choose("follower-entries", j) // the follower applied the first i entries itself (0: brand-new node)
	for k := 0; k < j; k++ {
		if k == i {
			g.down[1] = true // down from here on; the log is compacted meanwhile, so replay is impossible
		}
		m := 1 + rt.Choose(fmt.Sprintf("bulk%d", k), rt.Param("BULK", 2))
		if k >= i && k > 0 && rt.Choose(fmt.Sprintf("near%d", k), 2) == 1 {
			// events added while the follower is away that are neighbours of the very first event:
			// same 20 leading digest bits, so they rewrite hyper-cache tiles the follower holds
			var evs [][]byte
			for e := 0; e < m; e++ {
				evs = append(evs, []byte{0x10, 0, byte(1 + 2*k + e)}) // third digest byte 0x01..0x0f: bits 20..23 differ
			}
			g.commitEvents(evs)
			rt.Reach("neighbour-events-during-downtime")
			continue
		}
		g.commit(byte(0x10+k), m)
	}
	var err error
	ok := rt.NoPanic(func() { err = zzRestore(g.nodes[1], g.nodes[0]) }, "restore")
	if !ok {
		return
	}
	rt.Assert(err == nil, "transfer-accepted")
	g.down[1] = false
	rt.Assert(g.nodes[1].balloon.Version() == g.nodes[0].balloon.Version(), "same-version-after-transfer")
	zzTablesEqual(g.stores[0], g.stores[1], "after-transfer")
	zzProofsVerify(g.nodes[1], g.snaps[0], g.digs, "restored-follower")
	// later insertions: the follower must compute the leader's digests
	later := 1 + rt.Choose("later-entries", rt.Param("LATER", 2))
	for k := 0; k < later; k++ {
		g.commit(byte(0x40+k), 1)
	}
	for v := range g.snaps[1] {
		if g.snaps[1][v] != nil {
			zzSameSnapshot(g.snaps[0][v], g.snaps[1][v], "after-transfer")
		}
	}
	rt.Assert(len(g.snaps[1]) == len(g.snaps[0]), "follower-applied-the-later-entries")
	zzTablesEqual(g.stores[0], g.stores[1], "after-later-entries")
}

// ZZC09Validate: the leader's batch filter accepts a gap-free chain starting at or before the
// follower's version, refuses a gap, and skips undecodable metadata — for arbitrary 64-bit versions.
type zzCaptureStore struct {
	*models.MemStore
	validate storage.ValidateF
}

func (s *zzCaptureStore) FetchSnapshot(w io.WriteCloser, since, until uint64, valid storage.ValidateF) error {
	s.validate = valid
	return nil
}

func ZZC09Validate() {
	zzBoxes = nil
	cs := &zzCaptureStore{MemStore: models.NewMemStore()}
	n := zzOpenNodeNoRaft(cs.MemStore)
	n.db = cs
	last := rt.U64("follower-version")
	if err := n.FetchSnapshot(&FetchSnapshotRequest{LastAppliedVersion: last}, &zzStream{}); err != nil {
		panic(err)
	}
	k := 1 + rt.Choose("records", rt.Param("RECORDS", 3))
	cur := last
	for r := 0; r < k; r++ {
		if rt.Choose(fmt.Sprintf("garbled%d", r), 2) == 1 {
			ok, err := cs.validate([]byte{0xff})
			rt.Assert(!ok && err == nil, "undecodable-metadata-is-skipped")
			continue
		}
		m := &VersionMetadata{PreviousVersion: rt.U64(fmt.Sprintf("prev%d", r)), NewVersion: rt.U64(fmt.Sprintf("new%d", r))}
		rt.Assume(m.PreviousVersion <= m.NewVersion) // what applyAdd writes
		enc, _ := m.encode()
		ok, err := cs.validate(enc)
		if m.PreviousVersion > cur {
			rt.Assert(err != nil, "gap-is-refused")
			return
		}
		rt.Assert(err == nil, "no-gap-no-error")
		if ok {
			rt.Assert(m.NewVersion >= cur, "accepted-batch-does-not-go-back")
			cur = m.NewVersion
		}
	}
}

// ---- C10: queries concurrent with insertions are answered from a consistent state ----

func ZZC10InFlight() {
	g := zzNewGroup(1)
	n := g.nodes[0]
	prior := rt.Choose("prior-events", rt.Param("PRIOR", 3)+1)
	for k := 0; k < prior; k++ {
		g.commit(byte(0x10+k), 1)
	}
	kind := rt.Choose("query", 3)
	when := rt.Choose("when", 2) // 0: between computing the insertion and persisting it, 1: right after persisting
	ran := false
	query := func() {
		ran = true
		issued := g.snaps[0] // snapshots issued so far (the in-flight one is not yet acknowledged)
		switch kind {
		case 0:
			if len(g.digs) == 0 {
				return
			}
			e := rt.Choose("event", len(g.digs))
			var mp *balloon.MembershipProof
			var err error
			if !rt.NoPanic(func() { mp, err = n.QueryDigestMembership(g.digs[e]) }, "membership-query-during-insert") {
				return
			}
			if err == nil && mp.Exists {
				rt.Assert(int(mp.QueryVersion) < len(issued)+2, "names-a-plausible-version")
			}
		case 1:
			if len(g.digs) == 0 {
				return
			}
			e := rt.Choose("event", len(g.digs))
			v := uint64(rt.Choose("version", len(g.digs)+1))
			rt.NoPanic(func() { n.QueryDigestMembershipConsistency(g.digs[e], v) }, "membership-consistency-query-during-insert")
		case 2:
			end := uint64(rt.Choose("end", len(g.digs)+1))
			start := uint64(rt.Choose("start", int(end)+1))
			var ip *balloon.IncrementalProof
			var err error
			if !rt.NoPanic(func() { ip, err = n.QueryConsistency(start, end) }, "consistency-query-during-insert") {
				return
			}
			if err == nil && int(end) < len(issued) && issued[end] != nil && issued[start] != nil {
				rt.Assert(ip.Verify(issued[start], issued[end]), "consistency-proof-verifies-against-issued-snapshots")
			}
		}
	}
	// the query is another thread of control: if it has to wait for a lock the apply
	// path holds, it runs once the apply path has released it
	deferred := false
	probe := func() {
		if !rt.Concurrently(query) {
			deferred = true
		}
	}
	if when == 0 {
		g.stores[0].BeforeMutate = probe
	} else {
		g.stores[0].AfterMutate = probe
	}
	g.commit(0x40, 1)
	rt.Join()
	if deferred && rt.Symbolic() {
		query()
	}
	rt.Cover(deferred, "query-had-to-wait")
	rt.Assert(ran || deferred, "query-ran")
}

// Twins (reachability witnesses)
func ZZC08Twin() {
	g := zzNewGroup(2)
	g.commit(0x10, 1)
	g.nodes[1].Close(true)
	g.reopen(1)
	g.commit(0x11, 1)
	rt.Assert(!bytes.Equal(g.snaps[0][1].HyperDigest, g.snaps[1][1].HyperDigest), "twin")
}

// ---- exported helpers for harnesses in other packages (C11) ----

// ZZNewSingle opens a single-replica cluster and returns its node.
func ZZNewSingle() *RaftNode { return zzNewCluster(1).nodes[0] }

// ZZSyncLog makes the entries committed so far visible to ZZReplayOnFreshReplica (native side).
func ZZSyncLog(n *RaftNode) {
	if !rt.Symbolic() {
		zzNativeRecord(n)
	}
}

// ZZReplayOnFreshReplica applies the whole committed log on a brand-new replica
// (what a follower, or this node after losing its data, does).
func ZZReplayOnFreshReplica(label string) bool {
	st := models.NewMemStore()
	n := zzOpenNodeNoRaft(st)
	for _, e := range zzC.log {
		ent := e
		if !rt.NoPanic(func() { n.Apply(&raft.Log{Index: ent.index, Term: 1, Type: raft.LogCommand, Data: ent.data}) }, label) {
			return false
		}
	}
	return true
}

// ZZEventDigest is the digest the node computes for an event.
func ZZEventDigest(n *RaftNode, event []byte) hashing.Digest { return n.hasherF().Do(event) }

// ---- C10, second interleaving: the query has already passed its synchronisation point when the insertion arrives ----

// zzCounter stands in for the node's query counters (a prometheus.Counter); the
// node bumps it right after the point where a query synchronises with the apply
// path, which makes it an interleaving point available in both worlds.
type zzCounter struct {
	prometheus.Counter
	onInc func()
}

func (c *zzCounter) Inc() {
	if c.onInc != nil {
		f := c.onInc
		c.onInc = nil
		f()
	}
}
func (c *zzCounter) Add(float64) {}

func ZZC10Overlap() {
	g := zzNewGroup(1)
	n := g.nodes[0]
	prior := 1 + rt.Choose("prior-events", rt.Param("PRIOR", 2))
	for k := 0; k < prior; k++ {
		g.commit(byte(0x10+k), 1)
	}
	issued := append([]*balloon.Snapshot{}, g.snaps[0]...)
	digs := append([]hashing.Digest{}, g.digs...)
	kind := rt.Choose("query", 3)
	e := rt.Choose("event", len(digs))
	end := uint64(rt.Choose("end", len(digs)+1))
	start := uint64(rt.Choose("start", int(end)+1))
	version := uint64(rt.Choose("version", len(digs)+1))
	// the answers are kept: a handler serialises them, and a client verifies them, after the
	// query has returned and released its locks — while the insertion goes on
	var heldMP *balloon.MembershipProof
	var heldIP *balloon.IncrementalProof
	query := func() {
		switch kind {
		case 0:
			var mp *balloon.MembershipProof
			var err error
			if rt.NoPanic(func() { mp, err = n.QueryDigestMembership(digs[e]) }, "membership-query-overlapping-insert") && err == nil {
				cur := int(mp.CurrentVersion)
				if cur < len(issued) {
					snap := &balloon.Snapshot{HistoryDigest: issued[cur].HistoryDigest, HyperDigest: issued[cur].HyperDigest, Version: uint64(cur)}
					rt.Assert(mp.DigestVerify(digs[e], snap), "overlapping-membership-proof-verifies")
					heldMP = mp
				}
			}
		case 1:
			rt.NoPanic(func() { n.QueryDigestMembershipConsistency(digs[e], version) }, "membership-consistency-query-overlapping-insert")
		case 2:
			var ip *balloon.IncrementalProof
			var err error
			if rt.NoPanic(func() { ip, err = n.QueryConsistency(start, end) }, "consistency-query-overlapping-insert") && err == nil && int(end) < len(issued) {
				rt.Assert(ip.Verify(issued[start], issued[end]), "overlapping-consistency-proof-verifies")
				heldIP = ip
			}
		}
	}
	recheck := func() {
		if heldMP != nil {
			cur := int(heldMP.CurrentVersion)
			snap := &balloon.Snapshot{HistoryDigest: issued[cur].HistoryDigest, HyperDigest: issued[cur].HyperDigest, Version: uint64(cur)}
			rt.Assert(heldMP.DigestVerify(digs[e], snap), "answer-still-verifies-once-the-insertion-is-applied")
		}
		if heldIP != nil {
			rt.Assert(heldIP.Verify(issued[start], issued[end]), "consistency-answer-still-verifies-once-the-insertion-is-applied")
		}
	}
	// the next committed entry, ready to be applied
	var hs []hashing.Digest
	h := models.EventHasherF(zzBits)()
	// the event in flight lands either far from every earlier event or next to the most recent
	// one (same first digest byte: it then changes a subtree that earlier answers refer to)
	inflight := zzEvents(0x40, 1)
	if rt.Choose("in-flight-event-near", 2) == 1 {
		inflight = zzEvents(byte(0x10+prior-1), 2)[1:]
	}
	for _, ev := range inflight {
		hs = append(hs, h.Do(ev))
	}
	cmd := newCommand(addEventCommandType)
	cmd.encode(hs)
	entry := zzEntry{index: g.next, data: cmd.data}
	ctr := &zzCounter{}
	n.metrics.DigestMembershipQueries, n.metrics.MembershipQueries, n.metrics.IncrementalQueries = ctr, ctr, ctr

	if rt.Symbolic() {
		applyWaited := false
		ctr.onInc = func() {
			// the query is past its synchronisation point: the insertion arrives now; its store
			// write is still in flight while the query goes on
			g.stores[0].DeferWrites = true
			if !rt.Concurrently(func() { g.apply(0, entry) }) {
				applyWaited = true // the apply path has to wait for the query
			}
		}
		query()
		g.stores[0].Flush()
		if applyWaited {
			g.apply(0, entry)
		}
		rt.Cover(applyWaited, "insertion-waited-for-the-query")
		recheck()
		return
	}
	// natively: real goroutines parked at the same two points
	atCounter, resume := make(chan struct{}), make(chan struct{})
	inWindow, finish, applied, done := make(chan struct{}), make(chan struct{}), make(chan struct{}), make(chan struct{})
	ctr.onInc = func() { close(atCounter); <-resume }
	go func() { query(); close(done) }()
	<-atCounter
	g.stores[0].BeforeMutate = func() { close(inWindow); <-finish }
	go func() { g.apply(0, entry); close(applied) }()
	select {
	case <-inWindow: // the insertion got in while the query is in flight
	case <-time.After(300 * time.Millisecond): // it is waiting for the query
	}
	close(resume)
	<-done
	close(finish)
	<-applied
	recheck()
}

// ZZC08ManyTiles: a restart when the persisted hyper cache holds more recovery tiles than one
// read page of the warm-up (1000): one long run, digests with distinct 20-bit prefixes.
func ZZC08ManyTiles() {
	g := zzNewGroup(2)
	bulks := rt.Param("BULKS", 22)
	per := rt.Param("PER", 50)
	for k := 0; k < bulks; k++ {
		g.commit(byte(0x10+k), per)
	}
	st := g.stores[1]
	rt.Bound("recovery_tiles", len(st.Dump(storage.HyperCacheTable)))
	rt.Cover(len(st.Dump(storage.HyperCacheTable)) > 1000, "more-tiles-than-one-page")
	g.nodes[1].Close(true)
	rt.Assert(!st.ClosedWithOpenReaders, "close-with-every-reader-released")
	g.reopen(1)
	g.commit(0xf0, 1)
	last := len(g.snaps[0]) - 1
	zzSameSnapshot(g.snaps[0][last], g.snaps[1][last], "after-restart-with-many-tiles")
	e := rt.Choose("old-event", 3)
	idx := []int{0, len(g.digs) / 2, len(g.digs) - 2}[e]
	mp, err := g.nodes[1].QueryDigestMembership(g.digs[idx])
	rt.Assert(err == nil, "membership-query-ok")
	if err == nil {
		snap := &balloon.Snapshot{HistoryDigest: g.snaps[0][last].HistoryDigest, HyperDigest: g.snaps[0][last].HyperDigest, Version: uint64(last)}
		rt.Assert(mp.DigestVerify(g.digs[idx], snap), "old-event-proof-verifies-after-restart")
	}
}

// ---- C05/C07: a store write that fails ----

// ZZC05WriteFault: the store refuses one write (I/O error) while an entry is being applied.
// Whatever the node does about it — die (Raft re-delivers the entry to the restarted
// process) or report the failure and go on — the events acknowledged afterwards must get
// the versions that follow the acknowledged ones, and every replica that did not see the
// fault must agree.
func ZZC05WriteFault() {
	g := zzNewGroup(2) // 0: healthy reference, 1: its store fails once
	n := 1 + rt.Choose("entries", rt.Param("ENTRIES", 3))
	faultAt := rt.Choose("fault-at-entry", n)
	for k := 0; k < n; k++ {
		m := 1 + rt.Choose(fmt.Sprintf("bulk%d", k), rt.Param("BULK", 2))
		if k != faultAt {
			g.commit(byte(0x10+k), m)
			continue
		}
		g.stores[1].FailWrite = 0
		g.down[1] = true
		g.commit(byte(0x10+k), m) // replica 0 applies it
		g.down[1] = false
		e := g.log[len(g.log)-1]
		before := len(g.snaps[1])
		died := rt.Try(func() { g.apply(1, e) })
		if died {
			// the process is gone; it restarts on its data and Raft delivers the entry again
			rt.Reach("node-died-on-the-failed-write")
			g.reopen(1)
			if !rt.NoPanic(func() { g.apply(1, e) }, "re-delivery-after-failed-write") {
				return
			}
		} else if len(g.snaps[1]) == before {
			// it reported the failure and lives on: Raft has handed the entry over and will not do so
			// again, so the replica must not have kept any trace of it...
			rt.Reach("node-survived-the-failed-write")
			rt.Assert(g.nodes[1].balloon.Version() == uint64(before), "failed-entry-leaves-the-version-counter-alone")
		}
	}
	// one more entry on both
	g.commit(0x60, 1)
	last := len(g.snaps[0]) - 1
	rt.Assert(g.nodes[1].balloon.Version() == g.nodes[0].balloon.Version(), "same-version-after-the-fault")
	if last < len(g.snaps[1]) {
		zzSameSnapshot(g.snaps[0][last], g.snaps[1][last], "after-write-fault")
	} else {
		rt.Assert(false, "after-write-fault:versions-stay-dense")
	}
	for v := range g.snaps[1] {
		if g.snaps[1][v] != nil {
			zzSameSnapshot(g.snaps[0][v], g.snaps[1][v], "after-write-fault")
		}
	}
	zzTablesEqual(g.stores[0], g.stores[1], "after-write-fault")
	zzProofsVerify(g.nodes[1], g.snaps[0], g.digs, "after-write-fault")
}

// ZZC07BigBulk: one long run with a big entry — `PRIOR` events in bulks of 50, then a single
// bulk of `BIG` events that crosses the 256 and 512 version boundaries and produces more than
// a thousand store mutations — with the process dying right after its k-th store write, for a
// symbolic k around that entry; restart, Raft replays the log, one more entry. Everything is
// compared with a replica that never crashed.
func ZZC07BigBulk() {
	g := zzNewGroup(2)
	prior := rt.Param("PRIOR", 200)
	big := rt.Param("BIG", 330)
	bulks := prior / 50
	// replica 1 dies after its (bulks + c)-th write: c = 0 before the big entry's first write …
	c := rt.Choose("crash-after-write-of-big-entry", rt.Param("WRITES", 3))
	g.stores[1].CrashAfter = bulks + c
	for k := 0; k < bulks; k++ {
		g.commit(byte(0x10+k), 50)
	}
	ok := rt.NoPanic(func() { g.commit(0x80, big) }, "big-bulk-applies")
	if !ok {
		return
	}
	muts := 0
	for _, b := range g.stores[0].WAL[bulks:] {
		muts += len(b.Mutations)
	}
	rt.Bound("mutations_of_big_entry", muts)
	rt.Cover(muts > 1024, "big-entry-has-more-than-1024-mutations")
	writesOfBig := g.stores[1].Mutates - bulks
	rt.Bound("store_writes_of_big_entry", writesOfBig)
	g.snaps[1] = nil
	g.reopen(1)
	if c >= writesOfBig {
		rt.Reach("crash-after-the-whole-entry")
	} else {
		rt.Reach("crash-inside-or-before-the-entry")
	}
	v := g.nodes[1].balloon.Version()
	rt.Assert(v == uint64(prior) || v == uint64(prior+big), "recovers-to-a-prefix-of-the-committed-log")
	// Raft replays the whole log (entries already applied must be skipped)
	for k := 0; k < len(g.log); k++ {
		ent := g.log[k]
		if !rt.NoPanic(func() { g.apply(1, ent) }, "replay-after-crash") {
			return
		}
	}
	g.commit(0xf0, 1)
	rt.Assert(g.nodes[0].balloon.Version() == g.nodes[1].balloon.Version(), "same-version-after-recovery")
	last := len(g.snaps[0]) - 1
	if last < len(g.snaps[1]) {
		zzSameSnapshot(g.snaps[0][last], g.snaps[1][last], "after-recovery")
	} else {
		rt.Assert(false, "after-recovery:same-version")
	}
	zzTablesEqual(g.stores[0], g.stores[1], "after-recovery")
	for _, e := range []int{0, prior + big/2, prior + big - 1} {
		mp, err := g.nodes[1].QueryDigestMembership(g.digs[e])
		rt.Assert(err == nil, "membership-query-ok")
		if err == nil {
			snap := &balloon.Snapshot{HistoryDigest: g.snaps[0][last].HistoryDigest, HyperDigest: g.snaps[0][last].HyperDigest, Version: uint64(last)}
			rt.Assert(mp.DigestVerify(g.digs[e], snap), "event-proof-verifies-after-recovery")
		}
	}
}

// ZZC06Lagging: requests go through the leader's public API (the real RaftNode.AddBulk builds
// and proposes the command); a follower is away for some of them and catches up later from the
// leader's log, which holds the very byte slices the leader proposed (Raft keeps proposed
// entries by reference in its log cache and replicates from there).
func ZZC06Lagging() {
	c := zzNewCluster(2)
	leader := c.nodes[0]
	n := 2 + rt.Choose("requests", rt.Param("REQUESTS", 2))
	awayFrom := 1 + rt.Choose("follower-away-from", n-1)
	var issued []*balloon.Snapshot
	var digs []hashing.Digest
	for k := 0; k < n; k++ {
		if k == awayFrom {
			c.down[1] = true
		}
		m := 1 + rt.Choose(fmt.Sprintf("bulk%d", k), rt.Param("BULK", 2))
		snaps, err := zzAddBulk(leader, zzEvents(byte(0x10+k), m))
		if err != nil || len(snaps) != m {
			rt.Assert(false, "add-acknowledged")
			return
		}
		issued = append(issued, snaps...)
		for i := 0; i < m; i++ {
			digs = append(digs, leader.hasherF().Do(zzEvents(byte(0x10+k), m)[i]))
		}
	}
	// the follower comes back and is sent the entries it missed
	c.down[1] = false
	for _, e := range c.log {
		if e.index > c.stores[1].Covered || natively() {
			ent := e
			if !rt.NoPanic(func() { c.deliver(1, ent) }, "follower-catches-up") {
				return
			}
		}
	}
	rt.Assert(c.nodes[1].balloon.Version() == leader.balloon.Version(), "same-version")
	zzTablesEqual(c.stores[0], c.stores[1], "lagging-follower")
	zzProofsVerify(c.nodes[1], issued, digs, "lagging-follower")
}

// natively the follower has its own idle Raft and sees no entry but those delivered here
func natively() bool { return !rt.Symbolic() }

// ZZC10ConcurrentQueries: queries only take read locks, so two of them run at the same time.
// Two such activities must not write a common memory cell without a common exclusive lock
// (a shared hasher, a shared scratch buffer, an unsynchronised cache).
func ZZC10ConcurrentQueries() {
	g := zzNewGroup(1)
	n := g.nodes[0]
	for k := 0; k < 3; k++ {
		g.commit(byte(0x10+k), 1)
	}
	q := []func(){
		func() { n.QueryDigestMembership(g.digs[0]) },
		func() { n.QueryDigestMembershipConsistency(g.digs[1], 2) },
		func() { n.QueryConsistency(0, 2) },
		func() { n.QueryDigestMembershipConsistency(g.digs[0], 1) },
	}
	a := rt.Choose("first-query", len(q))
	b := rt.Choose("second-query", len(q))
	rt.SharedWrites(q[a], q[b], "concurrent-queries")
}

// ZZC10ConcurrentQueriesRace: native witness for a finding of ZZC10ConcurrentQueries (meaningful in a -race build).
func ZZC10ConcurrentQueriesRace() {
	g := zzNewGroup(1)
	n := g.nodes[0]
	for k := 0; k < 3; k++ {
		g.commit(byte(0x10+k), 1)
	}
	done := make(chan struct{})
	for w := 0; w < 4; w++ {
		go func(w int) {
			defer func() { recover(); done <- struct{}{} }()
			for i := 0; i < 300; i++ {
				switch (w + i) % 3 {
				case 0:
					n.QueryDigestMembership(g.digs[i%3])
				case 1:
					n.QueryDigestMembershipConsistency(g.digs[i%3], 2)
				case 2:
					n.QueryConsistency(0, 2)
				}
			}
		}(w)
	}
	for w := 0; w < 4; w++ {
		<-done
	}
}
