// Package c12: the client verifier is total — hostile answers are rejected, never crash it.
package c12

import (
	"fmt"

	"github.com/bbva/qed/balloon"
	"github.com/bbva/qed/crypto/hashing"
	"github.com/bbva/qed/protocol"
	"github.com/bbva/qed/zzverif/models"
	"github.com/bbva/qed/zzverif/rt"
)

const bits = 256

func buildLog(n int) *models.Log {
	l := models.NewLog(bits)
	for k := 0; k < n; k++ {
		l.Add(models.PrefixedDigest(fmt.Sprintf("d%d", k), bits/8, byte(k+1), 0, 0))
	}
	return l
}

// versions that matter for depth/overflow behaviour of the verifier's tree walk
var hostileVersions = []uint64{0, 1, 2, 3, 5, 63, 64, 1 << 16, 1<<32 + 1, 1 << 63, 1<<64 - 1}

func pickVersion(name string) uint64 {
	return hostileVersions[rt.Choose(name, rt.Param("VERS", 6))]
}

// ParseKeys: audit-path keys are attacker-chosen strings (missing separator,
// non-numeric tokens, empty): translating and verifying must not panic.
func ParseKeys() {
	L := rt.Choose("keylen", rt.Param("KEYLEN", 4)+1)
	kb := rt.Bytes("key", L)
	for _, c := range kb {
		// printable range plus the separator is enough to reach every branch of Split/Atoi
		rt.Assume(c == '|' || c == '-' || c == '+' || c == 'x' || (c >= '0' && c <= '9'))
	}
	key := string(kb)
	mr := &protocol.MembershipResult{
		Exists:  true,
		Hyper:   map[string]hashing.Digest{"0x00|255": make([]byte, 32)},
		History: map[string]hashing.Digest{key: make([]byte, 32)},
	}
	rt.NoPanic(func() { protocol.ToBalloonProof(mr, rt.HasherF(bits)) }, "to-balloon-proof")
	ir := &protocol.IncrementalResponse{Start: 0, End: 1, AuditPath: map[string]hashing.Digest{key: make([]byte, 32)}}
	rt.NoPanic(func() { protocol.ToIncrementalProof(ir, rt.HasherF(bits)) }, "to-incremental-proof")
}

// Membership: structured mutations of a genuine answer.
func Membership() {
	n := 1 + rt.Choose("n", rt.Param("N", 2))
	l := buildLog(n)
	e := rt.Choose("e", n)
	mp, err := l.B.QueryDigestMembership(l.Digests[e])
	rt.Assume(err == nil)
	mr := protocol.ToMembershipResult(nil, mp)
	d := l.Digests[e]

	switch rt.Choose("mutation", 10) {
	case 9: // far more entries than the tree has levels (the path size drives the verifier's descent)
		extra := []int{233, 257, 300}[rt.Choose("extra", 3)]
		for i := 0; i < extra; i++ {
			mr.Hyper[fmt.Sprintf("0x%04x|%d", i, 300+i)] = make([]byte, 32)
		}
		for i := 0; i < 70; i++ {
			mr.History[fmt.Sprintf("%d|%d", 1000+i, 70+i)] = make([]byte, 32)
		}
	case 0: // drop one hyper entry
		t, i := rt.Choose("drop", len(mr.Hyper)), 0
		for k := range mr.Hyper {
			if i == t {
				delete(mr.Hyper, k)
				break
			}
			i++
		}
	case 1: // drop one history entry
		if len(mr.History) == 0 {
			return
		}
		t, i := rt.Choose("drop", len(mr.History)), 0
		for k := range mr.History {
			if i == t {
				delete(mr.History, k)
				break
			}
			i++
		}
	case 2:
		mr.Hyper = nil
	case 3:
		mr.History = nil
	case 4: // extra, unrelated entries
		mr.Hyper["0xffff|3"] = make([]byte, 32)
		mr.History["99|7"] = make([]byte, 32)
	case 5: // any version triple
		mr.ActualVersion = pickVersion("actual")
		mr.QueryVersion = pickVersion("query")
		mr.CurrentVersion = pickVersion("current")
	case 6: // wrong digest lengths in the answer
		ln := []int{0, 1, 31, 33}[rt.Choose("len", 4)]
		mr.KeyDigest = rt.Bytes("kd", ln)
	case 7: // hostile key digest of the right length but different content
		mr.KeyDigest = rt.Bytes("kd", 32)
	case 8: // audit-path values of wrong length
		for k := range mr.Hyper {
			mr.Hyper[k] = rt.Bytes("short", []int{0, 1, 31, 33}[rt.Choose("len", 4)])
			break
		}
	}
	snap := &balloon.Snapshot{EventDigest: d, HistoryDigest: l.Snaps[n-1].HistoryDigest, HyperDigest: l.Snaps[n-1].HyperDigest, Version: uint64(n - 1)}
	var p *balloon.MembershipProof
	if !rt.NoPanic(func() { p = protocol.ToBalloonProof(mr, rt.HasherF(bits)) }, "to-balloon-proof") {
		return
	}
	rt.Terminates(func() {
		rt.NoPanic(func() { p.DigestVerify(d, snap) }, "digest-verify")
	}, "digest-verify")
}

// Incremental: structured mutations of a genuine incremental answer.
func Incremental() {
	n := 1 + rt.Choose("n", rt.Param("N", 3))
	l := buildLog(n)
	j := rt.Choose("j", n)
	i := rt.Choose("i", j+1)
	ip, err := l.B.QueryConsistency(uint64(i), uint64(j))
	rt.Assume(err == nil)
	ir := protocol.ToIncrementalResponse(ip)
	switch rt.Choose("mutation", 5) {
	case 0:
		if len(ir.AuditPath) == 0 {
			return
		}
		t, x := rt.Choose("drop", len(ir.AuditPath)), 0
		for k := range ir.AuditPath {
			if x == t {
				delete(ir.AuditPath, k)
				break
			}
			x++
		}
	case 1:
		ir.AuditPath = nil
	case 2:
		ir.Start = pickVersion("start")
		ir.End = pickVersion("end")
	case 3:
		ir.AuditPath["7|9"] = make([]byte, 32)
	case 4:
		for k := range ir.AuditPath {
			ir.AuditPath[k] = rt.Bytes("short", []int{0, 1, 31, 33}[rt.Choose("len", 4)])
			break
		}
	}
	var p *balloon.IncrementalProof
	if !rt.NoPanic(func() { p = protocol.ToIncrementalProof(ir, rt.HasherF(bits)) }, "to-incremental-proof") {
		return
	}
	rt.Terminates(func() {
		rt.NoPanic(func() { p.Verify(l.Snaps[i], l.Snaps[j]) }, "incremental-verify")
	}, "incremental-verify")
}

// NilParts: absent parts of a proof object.
func NilParts() {
	p := &balloon.MembershipProof{Exists: rt.Bool("exists"), Hasher: rt.NewHasher(bits)}
	snap := &balloon.Snapshot{HistoryDigest: make([]byte, 32), HyperDigest: make([]byte, 32)}
	rt.NoPanic(func() { p.DigestVerify(make([]byte, 32), snap) }, "digest-verify-nil-parts")
}

// Twin: reachability witness.
func Twin() {
	l := buildLog(1)
	mp, _ := l.B.QueryDigestMembership(l.Digests[0])
	mr := protocol.ToMembershipResult(nil, mp)
	p := protocol.ToBalloonProof(mr, rt.HasherF(bits))
	snap := &balloon.Snapshot{HistoryDigest: l.Snaps[0].HistoryDigest, HyperDigest: l.Snaps[0].HyperDigest}
	rt.Assert(!p.DigestVerify(l.Digests[0], snap), "twin")
}
