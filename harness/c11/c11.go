// Package c11: no client request can crash or wedge a server.
// The real HTTP handlers of api/apihttp and api/mgmthttp run over a real
// RaftNode (FSM level) with a recording ResponseWriter; the request, after
// decoding, is an arbitrary value of the protocol type.
package c11

import (
	"bytes"
	"encoding/json"
	"errors"
	"io"
	"io/ioutil"
	"net/http"
	"net/url"

	"github.com/bbva/qed/api/apihttp"
	"github.com/bbva/qed/api/mgmthttp"
	"github.com/bbva/qed/balloon"
	"github.com/bbva/qed/consensus"
	"github.com/bbva/qed/protocol"
	"github.com/bbva/qed/zzverif/rt"
)

// ---- recording ResponseWriter ----

type recorder struct {
	code   int
	wrote  bool
	header http.Header
}

func (r *recorder) Header() http.Header {
	if r.header == nil {
		r.header = http.Header{}
	}
	return r.header
}
func (r *recorder) Write(b []byte) (int, error) {
	if r.code == 0 {
		r.code = 200
	}
	r.wrote = true
	return len(b), nil
}
func (r *recorder) WriteHeader(code int) {
	if r.code == 0 {
		r.code = code
	}
}

// ---- decoder / encoder contracts (engine redirect targets; natively the real encoding/json runs on the real body) ----

var nextRequest interface{}
var garbled bool

func zzNewDecoder(r io.Reader) *json.Decoder { return &json.Decoder{} }

func zzDecode(d *json.Decoder, v interface{}) error {
	if garbled {
		return errors.New("invalid character")
	}
	switch p := v.(type) {
	case *protocol.Event:
		*p = *(nextRequest.(*protocol.Event))
	case *protocol.EventsBulk:
		*p = *(nextRequest.(*protocol.EventsBulk))
	case *protocol.MembershipQuery:
		*p = *(nextRequest.(*protocol.MembershipQuery))
	case *protocol.MembershipDigest:
		*p = *(nextRequest.(*protocol.MembershipDigest))
	case *protocol.IncrementalRequest:
		*p = *(nextRequest.(*protocol.IncrementalRequest))
	default:
		return errors.New("decoder contract: unsupported target")
	}
	return nil
}

func zzMarshal(v interface{}) ([]byte, error) { return []byte("{}"), nil }

func zzHTTPError(w http.ResponseWriter, msg string, code int) {
	w.WriteHeader(code)
	w.Write([]byte(msg))
}

func zzRedirect(w http.ResponseWriter, r *http.Request, u string, code int) { w.WriteHeader(code) }

// request builds the *http.Request carrying value v as its JSON body.
func request(method string, v interface{}) *http.Request {
	nextRequest = v
	var body io.ReadCloser
	if rt.Symbolic() {
		body = ioutil.NopCloser(nil)
	} else if garbled {
		body = ioutil.NopCloser(bytes.NewReader([]byte("{\"Event\": tru")))
	} else {
		b, _ := json.Marshal(v)
		body = ioutil.NopCloser(bytes.NewReader(b))
	}
	return &http.Request{Method: method, Body: body, URL: &url.URL{Path: "/"}}
}

var methods = []string{"POST", "GET", "DELETE", "PUT", "HEAD"}
var lengths = []int{32, 0, 1, 31, 33, 64}
var versions = []uint64{0, 1, 2, 1 << 32, 1<<63 - 1, 1 << 63, 1<<64 - 1}

func serve(h http.HandlerFunc, r *http.Request, label string) *recorder {
	w := &recorder{}
	if !rt.NoPanic(func() { h(w, r) }, label) {
		return nil
	}
	rt.Assert(w.code != 0, label+":a-response-is-written")
	return w
}

// afterwards: the server keeps serving correct answers, and the log it accepted can be applied
// by a fresh replica (now, or when the log is replayed after a restart).
func afterwards(n *consensus.RaftNode) {
	ev := []byte{0x77, 0x01}
	w := serve(apihttp.Add(n), request("POST", &protocol.Event{Event: ev}), "follow-up-add")
	if w == nil {
		return
	}
	rt.Assert(w.code == http.StatusCreated, "follow-up-add-accepted")
	d := consensus.ZZEventDigest(n, ev)
	mp, err := n.QueryDigestMembership(d)
	rt.Assert(err == nil && mp.Exists, "follow-up-membership-served")
	consensus.ZZSyncLog(n)
	consensus.ZZReplayOnFreshReplica("replicated-log-applies-on-a-fresh-replica")
}

func seed(n *consensus.RaftNode) {
	k := rt.Choose("prior-events", rt.Param("PRIOR", 2)+1)
	for i := 0; i < k; i++ {
		n.Add([]byte{0x10 + byte(i), 0})
	}
}

// Events: POST /events and /events/bulk with arbitrary decoded bodies.
func Events() {
	n := consensus.ZZNewSingle()
	seed(n)
	method := methods[rt.Choose("method", rt.Param("METHODS", 2))]
	garbled = rt.Choose("garbled", 2) == 1
	if rt.Choose("single", 2) == 1 {
		var ev []byte
		switch rt.Choose("event", 3) {
		case 0:
			ev = nil
		case 1:
			ev = []byte{}
		case 2:
			ev = []byte{0x20, 0x01}
		}
		serve(apihttp.Add(n), request(method, &protocol.Event{Event: ev}), "add")
	} else {
		m := rt.Choose("bulk-size", rt.Param("BULK", 3)+1)
		var evs [][]byte
		if m > 0 || rt.Choose("nil-bulk", 2) == 0 {
			evs = [][]byte{}
		}
		for i := 0; i < m; i++ {
			switch rt.Choose("kind", 3) {
			case 0:
				evs = append(evs, nil)
			case 1:
				evs = append(evs, []byte{})
			case 2:
				evs = append(evs, []byte{0x30, byte(i)})
			}
		}
		serve(apihttp.AddBulk(n), request(method, &protocol.EventsBulk{Events: evs}), "add-bulk")
	}
	garbled = false
	afterwards(n)
}

// BigBulk: a well-formed but large POST /events/bulk (BIG distinct events) on a log of PRIOR
// events, placed so that the bulk crosses the 256 and 512 version boundaries and produces
// more than a thousand store mutations: it is accepted, applied without a crash here and on
// a fresh replica that replays the log, and the server keeps serving.
func BigBulk() {
	n := consensus.ZZNewSingle()
	prior := rt.Param("PRIOR", 200)
	big := rt.Param("BIG", 330)
	for k := 0; k < prior/50; k++ {
		var evs [][]byte
		for i := 0; i < 50; i++ {
			evs = append(evs, []byte{0x10 + byte(k), byte(i)})
		}
		if _, err := n.AddBulk(evs); err != nil {
			panic(err)
		}
	}
	var evs [][]byte
	for i := 0; i < big; i++ {
		evs = append(evs, []byte{0x80 + byte(i>>8), byte(i)})
	}
	w := serve(apihttp.AddBulk(n), request("POST", &protocol.EventsBulk{Events: evs}), "add-big-bulk")
	if w == nil {
		return
	}
	rt.Assert(w.code == http.StatusCreated, "big-bulk-accepted")
	mp, err := n.QueryDigestMembership(consensus.ZZEventDigest(n, evs[big-1]))
	rt.Assert(err == nil && mp.Exists && mp.ActualVersion == uint64(prior+big-1), "last-event-of-the-big-bulk-is-served")
	afterwards(n)
}

// Proofs: the three proof endpoints with arbitrary decoded bodies.
func Proofs() {
	n := consensus.ZZNewSingle()
	seed(n)
	method := methods[rt.Choose("method", rt.Param("METHODS", 2))]
	garbled = rt.Choose("garbled", 2) == 1
	var version *uint64
	if rt.Choose("has-version", 2) == 1 {
		v := versions[rt.Choose("version", rt.Param("VERS", 4))]
		version = &v
	}
	switch rt.Choose("endpoint", 3) {
	case 0:
		key := make([]byte, []int{0, 1, 2}[rt.Choose("keylen", 3)])
		serve(apihttp.Membership(n), request(method, &protocol.MembershipQuery{Key: key, Version: version}), "membership")
	case 1:
		ln := lengths[rt.Choose("digest-len", rt.Param("LENS", 4))]
		d := make([]byte, ln)
		if ln > 0 {
			d[0] = 0x10 // shares the cache-level path of the first event when one exists
		}
		serve(apihttp.DigestMembership(n), request(method, &protocol.MembershipDigest{KeyDigest: d, Version: version}), "digest-membership")
	case 2:
		s := versions[rt.Choose("start", rt.Param("VERS", 4))]
		e := versions[rt.Choose("end", rt.Param("VERS", 4))]
		serve(apihttp.Incremental(n), request(method, &protocol.IncrementalRequest{Start: s, End: e}), "incremental")
	}
	garbled = false
	afterwards(n)
}

// Management: /backup and /backups with any method and any backupID parameter.
func Management() {
	n := consensus.ZZNewSingle()
	method := methods[rt.Choose("method", 5)]
	q := []string{"", "backupID=", "backupID=x", "backupID=7", "backupID=4294967296", "other=1", "backupID=1&backupID=2"}[rt.Choose("query", 7)]
	r := &http.Request{Method: method, URL: &url.URL{Path: "/backup", RawQuery: q}}
	if rt.Choose("endpoint", 2) == 0 {
		serve(mgmthttp.ManageBackup(n), r, "manage-backup")
	} else {
		serve(mgmthttp.ListBackups(n), r, "list-backups")
	}
}

// Twin: reachability witness.
func Twin() {
	n := consensus.ZZNewSingle()
	w := serve(apihttp.Add(n), request("POST", &protocol.Event{Event: []byte{1, 2}}), "add")
	rt.Assert(w == nil || w.code != http.StatusCreated, "twin")
}

var _ = balloon.Snapshot{}
