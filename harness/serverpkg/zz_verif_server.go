//go:build verif

package server

// In-package harness for C17 (snapshot sender). Injected by overlay only.

import (
	"errors"
	"fmt"
	"time"

	"github.com/bbva/qed/gossip"
	"github.com/bbva/qed/log"
	"github.com/bbva/qed/protocol"
	"github.com/bbva/qed/zzverif/rt"
)

type zzStop struct{}

var (
	zzCh         chan *protocol.Snapshot
	zzDrainFires int
	zzOffers     int
	zzBatches    []*protocol.BatchSnapshots
)

// zzAfter is the engine redirect target of time.After: the timer may fire at
// every select (a symbolic choice); once the input is drained it fires once
// more (the flush) and then the run is over.
func zzAfter(d time.Duration) <-chan time.Time {
	if len(zzCh) == 0 {
		if zzDrainFires >= 1 {
			panic(zzStop{})
		}
		zzDrainFires++
	} else {
		// while input is pending the timer is offered a bounded number of times
		// (each offer is a symbolic choice at the select); afterwards it stays silent
		if zzOffers >= rt.Param("TIMER", 3) {
			return make(chan time.Time)
		}
		zzOffers++
	}
	c := make(chan time.Time, 1)
	c <- time.Time{}
	return c
}

// JSON contract for a batch payload (engine redirects; natively real JSON).
func zzJSONMarshal(v interface{}) ([]byte, error) {
	b, ok := v.(*protocol.BatchSnapshots)
	if !ok {
		return nil, errors.New("json contract: unsupported value")
	}
	cp := &protocol.BatchSnapshots{}
	for _, s := range b.Snapshots {
		if s == nil {
			cp.Snapshots = append(cp.Snapshots, nil)
			continue
		}
		sn := *s.Snapshot
		cp.Snapshots = append(cp.Snapshots, &protocol.SignedSnapshot{Snapshot: &sn, Signature: append([]byte{}, s.Signature...)})
	}
	zzBatches = append(zzBatches, cp)
	return []byte{0xb0, byte(len(zzBatches) - 1)}, nil
}

func zzJSONUnmarshal(data []byte, v interface{}) error {
	b, ok := v.(*protocol.BatchSnapshots)
	if !ok || len(data) != 2 || data[0] != 0xb0 || int(data[1]) >= len(zzBatches) {
		return errors.New("json contract: undecodable")
	}
	*b = *zzBatches[data[1]]
	return nil
}

type zzSigner struct{}

func (zzSigner) Sign(m []byte) ([]byte, error) { return append([]byte("sig:"), m...), nil }
func (zzSigner) Verify(m, sig []byte) (bool, error) {
	return string(sig) == "sig:"+string(m), nil
}

type zzSub struct{ ch <-chan *gossip.Message }

func (s *zzSub) Subscribe(id int, ch <-chan *gossip.Message) { s.ch = ch }

func zzSnapshot(i int) *protocol.Snapshot {
	return &protocol.Snapshot{Version: uint64(i), EventDigest: []byte{byte(i), 1}, HistoryDigest: []byte{2, byte(i)}, HyperDigest: []byte{3}}
}

// ZZC17Batcher: every snapshot handed to the sender leaves it exactly once, signed, in a batch of 1..BatchSize.
func ZZC17Batcher() {
	size := 1 + rt.Choose("batch-size", rt.Param("SIZE", 3))
	k := rt.Choose("snapshots", 2*size+2)
	a := gossip.ZZNewAgentWithBus()
	sub := &zzSub{}
	a.Out.Subscribe(gossip.BatchMessageType, sub, 64)
	s := NewSenderWithLogger(a, zzSigner{}, size, 2, 1, log.L())
	s.Interval = 20 * time.Millisecond
	ch := make(chan *protocol.Snapshot, 64)
	for i := 0; i < k; i++ {
		ch <- zzSnapshot(i)
	}
	zzCh, zzDrainFires, zzOffers, zzBatches = ch, 0, 0, nil
	if rt.Symbolic() {
		rt.Try(func() { s.batcher(0, ch) })
	} else {
		go s.batcher(0, ch)
		for i := 0; i < 400 && len(ch) > 0; i++ {
			time.Sleep(5 * time.Millisecond)
		}
		time.Sleep(6 * s.Interval)
		s.Stop()
		time.Sleep(2 * s.Interval)
	}
	seen := map[uint64]int{}
	total := 0
	for len(sub.ch) > 0 {
		msg := <-sub.ch
		rt.Assert(msg.Kind == gossip.BatchMessageType && msg.TTL == 2, "message-kind-and-ttl")
		b := new(protocol.BatchSnapshots)
		rt.Assert(b.Decode(msg.Payload) == nil, "batch-decodes")
		rt.Assert(len(b.Snapshots) >= 1 && len(b.Snapshots) <= size, "batch-of-1..size")
		for _, ss := range b.Snapshots {
			rt.Assert(ss != nil && ss.Snapshot != nil, "no-hole-in-batch")
			if ss == nil || ss.Snapshot == nil {
				continue
			}
			ok, _ := zzSigner{}.Verify([]byte(fmt.Sprintf("%v", ss.Snapshot)), ss.Signature)
			rt.Assert(ok, "signature-verifies")
			seen[ss.Snapshot.Version]++
			total++
		}
	}
	rt.Assert(total == k, "nothing-lost-or-duplicated")
	for i := 0; i < k; i++ {
		rt.Assert(seen[uint64(i)] == 1, "each-snapshot-exactly-once")
	}
	rt.Cover(k > size, "more-than-one-batch")
}

// ZZC17Binding: the signed message binds every field of the snapshot.
var zzDigests = [][]byte{{}, {1}, {1, 2}, {12}, {1, 2, 3}, {0}, zzLong(-1), zzLong(0), zzLong(7), zzLong(8), zzLong(31)}

// zzLong: a 32-byte digest; flip >= 0 changes one byte at that offset (digests that differ
// only far from the start must still sign different messages)
func zzLong(flip int) []byte {
	d := make([]byte, 32)
	for i := range d {
		d[i] = 0x11
	}
	if flip >= 0 {
		d[flip] = 0x99
	}
	return d
}

func ZZC17Binding() {
	s := &Sender{signer: zzSigner{}, log: log.L()}
	mk := func(tag string) *protocol.Snapshot {
		return &protocol.Snapshot{
			EventDigest:   zzDigests[rt.Choose(tag+"-event", 6)],
			HistoryDigest: zzDigests[rt.Choose(tag+"-history", 6)],
			HyperDigest:   zzDigests[rt.Choose(tag+"-hyper", 6)],
			Version:       []uint64{0, 1, 12, 2}[rt.Choose(tag+"-version", 4)],
		}
	}
	x, y := mk("x"), mk("y")
	same := x.Version == y.Version && string(x.EventDigest) == string(y.EventDigest) && string(x.HistoryDigest) == string(y.HistoryDigest) && string(x.HyperDigest) == string(y.HyperDigest)
	sx, err1 := s.doSign(x)
	sy, err2 := s.doSign(y)
	rt.Assert(err1 == nil && err2 == nil, "signs")
	if !same {
		rt.Assert(string(sx.Signature) != string(sy.Signature), "different-snapshots-sign-different-messages")
	} else {
		rt.Assert(string(sx.Signature) == string(sy.Signature), "equal-snapshots-sign-the-same-message")
	}
}

// ZZC17BindingLong: the same for digests of the real length (32 bytes): two snapshots that
// differ in one digest, at any of several byte offsets (first, 8th, 9th, last), sign different messages.
func ZZC17BindingLong() {
	s := &Sender{signer: zzSigner{}, log: log.L()}
	long := zzDigests[6:]
	x := &protocol.Snapshot{
		EventDigest:   long[rt.Choose("event", len(long))],
		HistoryDigest: long[rt.Choose("history", len(long))],
		HyperDigest:   long[rt.Choose("hyper", len(long))],
		Version:       []uint64{0, 1 << 40}[rt.Choose("version", 2)],
	}
	y := *x
	alt := long[rt.Choose("other-value", len(long))]
	switch rt.Choose("field", 3) {
	case 0:
		y.EventDigest = alt
	case 1:
		y.HistoryDigest = alt
	case 2:
		y.HyperDigest = alt
	}
	same := string(x.EventDigest) == string(y.EventDigest) && string(x.HistoryDigest) == string(y.HistoryDigest) && string(x.HyperDigest) == string(y.HyperDigest)
	sx, err1 := s.doSign(x)
	sy, err2 := s.doSign(&y)
	rt.Assert(err1 == nil && err2 == nil, "signs")
	if !same {
		rt.Assert(string(sx.Signature) != string(sy.Signature), "different-long-digests-sign-different-messages")
	}
}

// ZZC17Twin: reachability witness.
func ZZC17Twin() {
	s := &Sender{signer: zzSigner{}, log: log.L()}
	ss, _ := s.doSign(zzSnapshot(1))
	rt.Assert(len(ss.Signature) == 0, "twin")
}

// ZZC17Shared: the batchers run concurrently on copies of the Sender (value receiver);
// signing a snapshot in one must not write memory that signing in another also writes.
func ZZC17Shared() {
	a := gossip.ZZNewAgentWithBus()
	s := NewSenderWithLogger(a, zzSigner{}, 2, 2, 2, log.L())
	c1, c2 := *s, *s // what `go s.batcher(i, ch)` gives each goroutine
	rt.SharedWrites(func() { c1.doSign(zzSnapshot(1)) }, func() { c2.doSign(zzSnapshot(2)) }, "sender-batchers")
}

// ZZC17SharedRace is the native witness for a lockset finding of ZZC17Shared
// (meaningful in a -race build): two batchers of one sender sign concurrently.
func ZZC17SharedRace() {
	a := gossip.ZZNewAgentWithBus()
	sub := &zzSub{}
	a.Out.Subscribe(gossip.BatchMessageType, sub, 4096)
	s := NewSenderWithLogger(a, zzSigner{}, 2, 2, 2, log.L())
	s.Interval = 5 * time.Millisecond
	ch := make(chan *protocol.Snapshot, 4096)
	s.Start(ch)
	for i := 0; i < 2000; i++ {
		ch <- zzSnapshot(i % 200)
	}
	for i := 0; i < 400 && len(ch) > 0; i++ {
		time.Sleep(5 * time.Millisecond)
	}
	time.Sleep(50 * time.Millisecond)
	s.Stop()
}
