//go:build verif

package rocks

// C14, RocksDB half: the real RocksDBStore glue (Mutate/Get/GetRange/GetAll/GetLast)
// over the wrapper model (engine) or the real library (native).

import (
	"io/ioutil"
	"os"

	"github.com/bbva/qed/rocksdb"
	"github.com/bbva/qed/storage"
	"github.com/bbva/qed/zzverif/c14"
	"github.com/bbva/qed/zzverif/rocksmodel"
	"github.com/bbva/qed/zzverif/rt"
)

func zzOpenStore() (*RocksDBStore, func()) {
	if rt.Symbolic() {
		rocksmodel.Reset()
		s := &RocksDBStore{db: &rocksdb.DB{}, ro: &rocksdb.ReadOptions{}, wo: &rocksdb.WriteOptions{}}
		for i := 0; i < 5; i++ {
			s.cfHandles = append(s.cfHandles, &rocksdb.ColumnFamilyHandle{})
		}
		return s, func() {}
	}
	dir, err := ioutil.TempDir("", "zzrocks")
	if err != nil {
		panic(err)
	}
	s, err := NewRocksDBStore(dir, 0)
	if err != nil {
		panic(err)
	}
	return s, func() { s.Close(); os.RemoveAll(dir) }
}

// ZZC14Rocks: the same differential check as for the in-memory back-end.
func ZZC14Rocks() {
	s, done := zzOpenStore()
	defer done()
	c14.Run(s)
	if rt.Symbolic() {
		rt.Assert(rocksmodel.OpenIter == 0, "every-iterator-closed")
	}
}

// ZZC14RocksLast: the last-key query with keys at the top of the byte order (the seek key is ten 0xff bytes).
func ZZC14RocksLast() {
	s, done := zzOpenStore()
	defer done()
	n := 8 + rt.Choose("keylen", 4) // 8..11 bytes
	k := make([]byte, n)
	for i := range k {
		k[i] = 0xff
	}
	k[n-1] = rt.Byte("last-byte")
	t := storage.HistoryTable
	if err := s.Mutate([]*storage.Mutation{{Table: t, Key: k, Value: []byte{1}}, {Table: t, Key: []byte{0x01}, Value: []byte{2}}}, nil); err != nil {
		panic(err)
	}
	kv, err := s.GetLast(t)
	rt.Assert(err == nil, "last:found")
	if err == nil {
		rt.Assert(string(kv.Key) == string(k), "last:greatest-key-of-the-table")
	}
}

// ZZC14RocksTwin: reachability witness.
func ZZC14RocksTwin() {
	s, done := zzOpenStore()
	defer done()
	s.Mutate([]*storage.Mutation{{Table: storage.HistoryTable, Key: []byte{1}, Value: []byte{2}}}, nil)
	kv, err := s.Get(storage.HistoryTable, []byte{1})
	rt.Assert(err != nil || kv.Value[0] != 2, "twin")
}
