//go:build verif

package rocks

// C14, RocksDB half: the real RocksDBStore glue (Mutate/Get/GetRange/GetAll/GetLast)
// over the wrapper model (engine) or the real library (native).

import (
	"fmt"
	"io/ioutil"
	"os"

	"github.com/bbva/qed/rocksdb"
	"github.com/bbva/qed/storage"
	"github.com/bbva/qed/zzverif/c14"
	"github.com/bbva/qed/zzverif/models"
	"github.com/bbva/qed/zzverif/rocksmodel"
	"github.com/bbva/qed/zzverif/rt"
)

// zzOpenModelStoreAt: under the engine, what NewRocksDBStore(path) builds, over the wrapper model.
func zzOpenModelStoreAt(path string) *RocksDBStore {
	s := &RocksDBStore{path: path, db: &rocksdb.DB{}, ro: &rocksdb.ReadOptions{}, wo: &rocksdb.WriteOptions{},
		backupEngine: &rocksdb.BackupEngine{}, restoreOpts: &rocksdb.RestoreOptions{}}
	for i := 0; i < 5; i++ {
		s.cfHandles = append(s.cfHandles, &rocksdb.ColumnFamilyHandle{})
	}
	rocksmodel.SetPath(s.db, path)
	rocksmodel.Register(s.db, s.cfHandles)
	return s
}

func zzOpenStore() (*RocksDBStore, func()) {
	if rt.Symbolic() {
		rocksmodel.Reset()
		return zzOpenModelStoreAt("db"), func() {}
	}
	dir, err := ioutil.TempDir("", "zzrocks")
	if err != nil {
		panic(err)
	}
	s, err := NewRocksDBStore(dir, 0)
	if err != nil {
		panic(err)
	}
	return s, func() { s.Close(); os.RemoveAll(dir) }
}

// ZZC14Rocks: the same differential check as for the in-memory back-end.
func ZZC14Rocks() {
	s, done := zzOpenStore()
	defer done()
	c14.Run(s)
	if rt.Symbolic() {
		rt.Assert(rocksmodel.OpenIter == 0, "every-iterator-closed")
	}
}

// ZZC14RocksLast: the last-key query with keys at the top of the byte order (the seek key is ten 0xff bytes).
func ZZC14RocksLast() {
	s, done := zzOpenStore()
	defer done()
	n := 8 + rt.Choose("keylen", 4) // 8..11 bytes
	k := make([]byte, n)
	for i := range k {
		k[i] = 0xff
	}
	k[n-1] = rt.Byte("last-byte")
	t := storage.HistoryTable
	if err := s.Mutate([]*storage.Mutation{{Table: t, Key: k, Value: []byte{1}}, {Table: t, Key: []byte{0x01}, Value: []byte{2}}}, nil); err != nil {
		panic(err)
	}
	kv, err := s.GetLast(t)
	rt.Assert(err == nil, "last:found")
	if err == nil {
		rt.Assert(string(kv.Key) == string(k), "last:greatest-key-of-the-table")
	}
}

// ZZC14RocksTwin: reachability witness.
func ZZC14RocksTwin() {
	s, done := zzOpenStore()
	defer done()
	s.Mutate([]*storage.Mutation{{Table: storage.HistoryTable, Key: []byte{1}, Value: []byte{2}}}, nil)
	kv, err := s.Get(storage.HistoryTable, []byte{1})
	rt.Assert(err != nil || kv.Value[0] != 2, "twin")
}

// ---- C16, RocksDB half: the real RocksDBStore backup glue (Backup / GetBackupsInfo /
// DeleteBackup / RestoreFromBackup / RestoreFromLatestBackup) over the wrapper model
// (engine) or the real BackupEngine (native). ----

type zzGhostBackup struct {
	id      int64
	meta    string
	content *models.MemStore
	deleted bool
}

func zzSameContent(s *RocksDBStore, ref *models.MemStore, label string) {
	for _, t := range []storage.Table{storage.DefaultTable, storage.HyperTable, storage.HyperCacheTable, storage.HistoryTable, storage.FSMStateTable} {
		want := ref.Dump(t)
		r := s.GetAll(t)
		buf := make([]*storage.KVPair, len(want)+2)
		n, err := r.Read(buf)
		r.Close()
		rt.Assert(err == nil, label+":scan-ok")
		rt.Assert(n == len(want), label+":same-number-of-entries")
		if n != len(want) {
			continue
		}
		for i := 0; i < n; i++ {
			rt.Assert(string(buf[i].Key) == string(want[i].Key), label+":same-keys")
			rt.Assert(string(buf[i].Value) == string(want[i].Value), label+":same-values")
		}
	}
}

func zzCheckRocksListing(s *RocksDBStore, ghosts []zzGhostBackup, label string) {
	infos := s.GetBackupsInfo()
	live := 0
	for _, g := range ghosts {
		if !g.deleted {
			live++
		}
	}
	rt.Assert(len(infos) == live, label+":one-line-per-existing-backup")
	for _, g := range ghosts {
		found := 0
		for _, in := range infos {
			if in != nil && in.ID == g.id {
				found++
				rt.Assert(in.Metadata == g.meta, label+":metadata-as-given")
			}
		}
		if g.deleted {
			rt.Assert(found == 0, label+":deleted-backup-is-gone")
		} else {
			rt.Assert(found == 1, label+":existing-backup-listed-once")
		}
	}
}

func ZZC16Rocks() {
	s, done := zzOpenStore()
	defer done()
	ghost := models.NewMemStore()
	var ghosts []zzGhostBackup
	var dirs []string
	defer func() {
		for _, d := range dirs {
			os.RemoveAll(d)
		}
	}()
	steps := 1 + rt.Choose("steps", rt.Param("STEPS", 3))
	alpha := rt.Param("ALPHA", 3)
	nextKey := 0
	for k := 0; k < steps; k++ {
		switch rt.Choose(fmt.Sprintf("op%d", k), 3) {
		case 0: // a write (one batch over one or two tables)
			var muts []*storage.Mutation
			nm := 1 + rt.Choose(fmt.Sprintf("muts%d", k), 2)
			for j := 0; j < nm; j++ {
				t := []storage.Table{storage.HistoryTable, storage.HyperTable, storage.FSMStateTable, storage.HyperCacheTable, storage.DefaultTable}[rt.Choose(fmt.Sprintf("table%d.%d", k, j), rt.Param("TABLES", 3))]
				key := []byte{byte(rt.Choose(fmt.Sprintf("key%d.%d", k, j), alpha))}
				val := []byte{byte(0x10 + nextKey)}
				nextKey++
				muts = append(muts, &storage.Mutation{Table: t, Key: key, Value: val})
			}
			rt.Assert(s.Mutate(muts, []byte{byte(k)}) == nil, "write-ok")
			ghost.Mutate(muts, nil)
		case 1: // a backup
			if len(ghosts) >= rt.Param("BACKUPS", 2) {
				continue
			}
			meta := fmt.Sprintf("%d", 100+k)
			var err error
			if !rt.NoPanic(func() { err = s.Backup(meta) }, "backup") {
				return
			}
			rt.Assert(err == nil, "backup-ok")
			var id int64
			fresh := 0
			for _, in := range s.GetBackupsInfo() {
				known := false
				for _, g := range ghosts {
					if g.id == in.ID {
						known = true
					}
				}
				if !known {
					id = in.ID
					fresh++
				}
			}
			rt.Assert(fresh == 1, "new-backup-is-listed")
			if fresh != 1 {
				return
			}
			ghosts = append(ghosts, zzGhostBackup{id: id, meta: meta, content: ghost.Clone()})
			zzCheckRocksListing(s, ghosts, "after-backup")
		case 2: // delete a backup (an existing one, or an identifier no backup has)
			if len(ghosts) == 0 {
				continue
			}
			d := rt.Choose(fmt.Sprintf("delete%d", k), len(ghosts)+1)
			if d == len(ghosts) {
				// any 32-bit identifier that no existing backup has
				x := rt.U32(fmt.Sprintf("unknown-id%d", k))
				for _, g := range ghosts {
					rt.Assume(g.deleted || int64(x) != g.id)
				}
				rt.Assert(s.DeleteBackup(x) != nil, "delete-unknown-backup-refused")
			} else if !ghosts[d].deleted {
				rt.Assert(s.DeleteBackup(uint32(ghosts[d].id)) == nil, "delete-backup-ok")
				ghosts[d].deleted = true
			} else {
				rt.Assert(s.DeleteBackup(uint32(ghosts[d].id)) != nil, "delete-twice-refused")
			}
			zzCheckRocksListing(s, ghosts, "after-delete")
		}
	}
	zzCheckRocksListing(s, ghosts, "final")
	if rt.Symbolic() {
		rt.Assert(rocksmodel.OpenInfos == 0, "every-backup-info-handle-released")
	}
	if len(ghosts) == 0 {
		return
	}
	// restore one backup (by identifier, or "the latest") into a new directory and open a store there
	w := rt.Choose("restore-which", len(ghosts)+1)
	dir := "restored"
	if !rt.Symbolic() {
		d, err := ioutil.TempDir("", "zzrestore")
		if err != nil {
			panic(err)
		}
		dirs = append(dirs, d)
		dir = d + "/db"
	}
	var want *zzGhostBackup
	var err error
	if w == len(ghosts) {
		for i := range ghosts {
			if !ghosts[i].deleted {
				want = &ghosts[i]
			}
		}
		err = s.RestoreFromLatestBackup(dir, dir)
		if want == nil {
			rt.Assert(err != nil, "restore-latest-without-backups-refused")
			return
		}
	} else {
		want = &ghosts[w]
		err = s.RestoreFromBackup(uint32(want.id), dir, dir)
		if want.deleted {
			rt.Assert(err != nil, "deleted-backup-cannot-be-restored")
			return
		}
	}
	rt.Assert(err == nil, "restore-ok")
	if err != nil {
		return
	}
	var r *RocksDBStore
	if rt.Symbolic() {
		r = zzOpenModelStoreAt(dir)
	} else {
		r, err = NewRocksDBStore(dir, 0)
		if err != nil {
			panic(err)
		}
		defer r.Close()
	}
	zzSameContent(r, want.content, "restored")
	// writes to the restored store do not reach the original, and the original is what it was
	r.Mutate([]*storage.Mutation{{Table: storage.HistoryTable, Key: []byte{0x7f}, Value: []byte{0x7f}}}, nil)
	zzSameContent(s, ghost, "original")
	rt.Reach("restored-and-compared")
}

// ZZC16RocksTwin: reachability witness.
func ZZC16RocksTwin() {
	s, done := zzOpenStore()
	defer done()
	s.Mutate([]*storage.Mutation{{Table: storage.HistoryTable, Key: []byte{1}, Value: []byte{2}}}, nil)
	s.Backup("7")
	infos := s.GetBackupsInfo()
	rt.Assert(len(infos) != 1 || infos[0].Metadata != "7", "twin")
}
