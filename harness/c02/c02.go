// Package c02: a membership verification that succeeds is always a true membership.
package c02

import (
	"bytes"
	"fmt"

	"github.com/bbva/qed/balloon"
	"github.com/bbva/qed/crypto/hashing"
	"github.com/bbva/qed/protocol"
	"github.com/bbva/qed/zzverif/models"
	"github.com/bbva/qed/zzverif/rt"
)

const bits = 256

var sizes = []int{24, 0, 1, 23, 25, 26}

func buildLog(n int, cluster bool) *models.Log {
	l := models.NewLog(bits)
	for k := 0; k < n; k++ {
		var d hashing.Digest
		if cluster {
			// events share the 24 cache-level bits; byte 3 distinguishes them
			d = models.PrefixedDigest(fmt.Sprintf("d%d", k), bits/8, 0x5a, 0, 0, byte(0x10*k))
		} else {
			d = models.PrefixedDigest(fmt.Sprintf("d%d", k), bits/8, byte(k+1), 0, 0)
		}
		l.Add(d)
	}
	return l
}

// forged is an arbitrary answer of the server, turned into a proof by the real
// protocol.ToBalloonProof (as client.MembershipVerify does). Hyper audit path: an
// adversarial map in which every key the verifier looks up is present with a free value
// and whose size is chosen. History audit path: a real map holding a free value at every
// position a verification for a version below 2^maxH can read (the verifier reads only
// positions inside the tree of the version it replays; an absent entry can only make it
// reject, so "everything present, everything free" is the strongest adversary).
func forged(exists bool, actual, query, current uint64, keyDigest hashing.Digest, hyperSize int, maxH uint) *balloon.MembershipProof {
	hist := map[string]hashing.Digest{}
	for h := uint(0); h <= maxH; h++ {
		for i := uint64(0); i < 1<<maxH; i += 1 << h {
			hist[fmt.Sprintf("%d|%d", i, h)] = rt.Digest(fmt.Sprintf("hist-%d-%d", i, h))
		}
	}
	mr := &protocol.MembershipResult{
		Exists:         exists,
		Hyper:          rt.FreeDigestMap("hyper", hyperSize),
		History:        hist,
		CurrentVersion: current,
		QueryVersion:   query,
		ActualVersion:  actual,
		KeyDigest:      keyDigest,
	}
	return protocol.ToBalloonProof(mr, rt.HasherF(bits))
}

func accept(p *balloon.MembershipProof, d hashing.Digest, s *balloon.Snapshot) (ok bool) {
	if rt.Try(func() { ok = p.DigestVerify(d, s) }) {
		return false // a verifier panic is "not accepted" here (C12's subject)
	}
	return ok
}

// run: recombine=false — the answer names the version the client asked about (all other
// fields and entries arbitrary); recombine=true — QueryVersion and CurrentVersion are the
// server's to choose as well (an answer recombined from genuine answers for other versions),
// with the remaining dimensions narrowed (stated in the evidence bounds).
func run(cluster, recombine bool) {
	N := rt.Param("N", 2)
	n := N // EXACT: only the largest log of the bound (smaller ones are covered by the other entries)
	if rt.Param("EXACT", 0) != 1 {
		n = 1 + rt.Choose("n", N)
	}
	l := buildLog(n, cluster)

	exists := rt.Bool("exists")
	// the version the client asked about: it holds that version's snapshot (it must exist)
	asked := uint64(rt.Choose("asked", n))
	query := asked
	// CurrentVersion is not authenticated by anything the client holds
	current := rt.U64("current-big")
	rt.Assume(current > uint64(n)+1)
	far := false
	if recombine {
		switch rt.Choose("query-kind", 4) {
		case 1:
			query = uint64(n - 1) // the last version of the log
		case 2:
			query = uint64(n) // just beyond the log
		case 3:
			// far beyond (a free 64-bit version would make the replayed tree's shape symbolic,
			// which the engine cannot decide: a representative, stated bound)
			query = 1 << 32
			far = true
		}
		// in these entries every version is concrete (a symbolic CurrentVersion that steers how a
		// proof is replayed would make the replayed tree's shape symbolic): beyond the log, the
		// asked version, the true one, zero
		current = 1 << 40
		switch rt.Choose("current-kind", 4) {
		case 1:
			current = asked
		case 2:
			current = uint64(n - 1)
		case 3:
			current = 0
		}
	}
	var actual uint64
	// (a free 64-bit ActualVersion against a 33-level replay forks on every level: with the far
	// QueryVersion the claimed version stays small)
	actualSmall := far || rt.Choose("actual-kind", 2) == 0
	if actualSmall {
		if recombine {
			actual = uint64(rt.Choose("actual", n+1))
		} else {
			actual = uint64(rt.Choose("actual", int(asked)+1))
		}
	} else {
		actual = rt.U64("actual-big")
		rt.Assume(actual > asked)
	}

	// the digest the client asks about: an inserted one, or another one sharing a cache path with event 0
	var d hashing.Digest
	which := rt.Choose("client-digest", n+1)
	if recombine {
		// narrowed: the digest inserted at the claimed version (if any), or a fresh one
		which = n
		if rt.Choose("client-digest-genuine", 2) == 1 && actualSmall && actual < uint64(n) {
			which = int(actual)
		}
	}
	if which < n {
		d = l.Digests[which]
	} else {
		if cluster {
			d = models.PrefixedDigest("fresh", bits/8, 0x5a, 0, 0)
		} else {
			d = models.PrefixedDigest("fresh", bits/8, 1, 0, 0)
		}
		for k := 0; k < n; k++ {
			rt.Assume(!bytes.Equal(d, l.Digests[k]))
		}
	}
	key := rt.Bytes("keydigest", bits/8)
	size := sizes[0]
	if !recombine {
		size = sizes[rt.Choose("hyper-size", rt.Param("SIZES", 4))]
	}
	maxH := uint(1)
	for 1<<maxH < n+2 {
		maxH++
	}
	p := forged(exists, actual, query, current, key, size, maxH)

	snap := &balloon.Snapshot{EventDigest: d, HistoryDigest: l.Snaps[asked].HistoryDigest, HyperDigest: l.Snaps[n-1].HyperDigest, Version: asked}
	if accept(p, d, snap) {
		rt.Reach("accepted")
		rt.Assert(exists, "accepted=>claims-existence")
		rt.Assert(actual <= query, "accepted=>actual<=query")
		rt.Assert(actual <= asked, "accepted=>not-later-than-the-asked-version")
		if actual < uint64(n) {
			rt.Assert(bytes.Equal(d, l.Digests[actual]), "accepted=>digest-inserted-at-actual")
		} else {
			rt.Assert(false, "accepted=>actual-is-a-version-of-the-log")
		}
	}
	rt.Cover(true, "ran")
}

func Spread()            { run(false, false) }
func Cluster()           { run(true, false) }
func Recombined()        { run(false, true) }
func RecombinedCluster() { run(true, true) }

// Genuine: the honest answer is accepted (reachability of acceptance through the same harness shape).
func Twin() {
	l := buildLog(2, false)
	mp, _ := l.B.QueryDigestMembership(l.Digests[0])
	snap := &balloon.Snapshot{HistoryDigest: l.Snaps[1].HistoryDigest, HyperDigest: l.Snaps[1].HyperDigest}
	rt.Assert(!accept(mp, l.Digests[0], snap), "twin")
}

// HonestAbsent: what the verifier says about the honest answer for a digest that was never added.
func HonestAbsent() {
	l := buildLog(2, rt.Choose("cluster", 2) == 1)
	d := models.PrefixedDigest("fresh", bits/8, 1, 0, 0)
	if rt.Choose("far", 2) == 1 {
		d = models.PrefixedDigest("fresh", bits/8, 0x77, 0, 0)
	}
	for k := 0; k < 2; k++ {
		rt.Assume(!bytes.Equal(d, l.Digests[k]))
	}
	mp, err := l.B.QueryDigestMembership(d)
	rt.Assert(err == nil, "query-ok")
	rt.Assert(!mp.Exists, "honest-says-absent")
	snap := &balloon.Snapshot{HistoryDigest: l.Snaps[1].HistoryDigest, HyperDigest: l.Snaps[1].HyperDigest}
	ok := accept(mp, d, snap)
	rt.Cover(ok, "honest-absence-accepted")
	rt.Cover(!ok, "honest-absence-rejected")
}
