// Package c02: a membership verification that succeeds is always a true membership.
package c02

import (
	"bytes"
	"fmt"

	"github.com/bbva/qed/balloon"
	"github.com/bbva/qed/balloon/history"
	"github.com/bbva/qed/balloon/hyper"
	"github.com/bbva/qed/crypto/hashing"
	"github.com/bbva/qed/util"
	"github.com/bbva/qed/zzverif/models"
	"github.com/bbva/qed/zzverif/rt"
)

const bits = 256

var sizes = []int{24, 0, 1, 23, 25, 26}

func buildLog(n int, cluster bool) *models.Log {
	l := models.NewLog(bits)
	for k := 0; k < n; k++ {
		var d hashing.Digest
		if cluster {
			// events share the 24 cache-level bits; byte 3 distinguishes them
			d = models.PrefixedDigest(fmt.Sprintf("d%d", k), bits/8, 0x5a, 0, 0, byte(0x10*k))
		} else {
			d = models.PrefixedDigest(fmt.Sprintf("d%d", k), bits/8, byte(k+1), 0, 0)
		}
		l.Add(d)
	}
	return l
}

// forged assembles an arbitrary answer the way protocol.ToBalloonProof does
// (hyper value = padded ActualVersion, key = KeyDigest), with adversarial audit paths.
func forged(exists bool, actual, query, current uint64, keyDigest hashing.Digest, hyperSize int) *balloon.MembershipProof {
	hasher := rt.NewHasher(bits)
	hp := hyper.NewQueryProof(keyDigest, util.Uint64AsPaddedBytes(actual, int(hasher.Len())), hyper.AuditPath(rt.FreeDigestMap("hyper", hyperSize)), hasher)
	hi := history.NewMembershipProof(actual, query, history.AuditPath(rt.FreeDigestMap10("history", 8)), rt.NewHasher(bits))
	return balloon.NewMembershipProof(exists, hp, hi, current, query, actual, keyDigest, rt.NewHasher(bits))
}

func accept(p *balloon.MembershipProof, d hashing.Digest, s *balloon.Snapshot) (ok bool) {
	if rt.Try(func() { ok = p.DigestVerify(d, s) }) {
		return false // a verifier panic is "not accepted" here (C12's subject)
	}
	return ok
}

func run(cluster bool) {
	N := rt.Param("N", 2)
	n := 1 + rt.Choose("n", N)
	l := buildLog(n, cluster)

	// the digest the client asks about: an inserted one, or another one sharing a cache path with event 0
	var d hashing.Digest
	which := rt.Choose("client-digest", n+1)
	if which < n {
		d = l.Digests[which]
	} else {
		if cluster {
			d = models.PrefixedDigest("fresh", bits/8, 0x5a, 0, 0)
		} else {
			d = models.PrefixedDigest("fresh", bits/8, 1, 0, 0)
		}
		for k := 0; k < n; k++ {
			rt.Assume(!bytes.Equal(d, l.Digests[k]))
		}
	}

	exists := rt.Bool("exists")
	query := uint64(rt.Choose("query", n)) // the client fetches snapshot[query]: it must exist
	current := rt.U64("current")
	var actual uint64
	if rt.Choose("actual-kind", 2) == 0 {
		actual = uint64(rt.Choose("actual", int(query)+1))
	} else {
		actual = rt.U64("actual-big")
		rt.Assume(actual > query)
	}
	key := rt.Bytes("keydigest", bits/8)
	size := sizes[rt.Choose("hyper-size", rt.Param("SIZES", 4))]
	p := forged(exists, actual, query, current, key, size)

	snap := &balloon.Snapshot{EventDigest: d, HistoryDigest: l.Snaps[query].HistoryDigest, HyperDigest: l.Snaps[n-1].HyperDigest, Version: query}
	if accept(p, d, snap) {
		rt.Reach("accepted")
		rt.Assert(exists, "accepted=>claims-existence")
		rt.Assert(actual <= query, "accepted=>actual<=query")
		if actual < uint64(n) {
			rt.Assert(bytes.Equal(d, l.Digests[actual]), "accepted=>digest-inserted-at-actual")
		} else {
			rt.Assert(false, "accepted=>actual-is-a-version-of-the-log")
		}
	}
	rt.Cover(true, "ran")
}

func Spread()  { run(false) }
func Cluster() { run(true) }

// Genuine: the honest answer is accepted (reachability of acceptance through the same harness shape).
func Twin() {
	l := buildLog(2, false)
	mp, _ := l.B.QueryDigestMembership(l.Digests[0])
	snap := &balloon.Snapshot{HistoryDigest: l.Snaps[1].HistoryDigest, HyperDigest: l.Snaps[1].HyperDigest}
	rt.Assert(!accept(mp, l.Digests[0], snap), "twin")
}

// HonestAbsent: what the verifier says about the honest answer for a digest that was never added.
func HonestAbsent() {
	l := buildLog(2, rt.Choose("cluster", 2) == 1)
	d := models.PrefixedDigest("fresh", bits/8, 1, 0, 0)
	if rt.Choose("far", 2) == 1 {
		d = models.PrefixedDigest("fresh", bits/8, 0x77, 0, 0)
	}
	for k := 0; k < 2; k++ {
		rt.Assume(!bytes.Equal(d, l.Digests[k]))
	}
	mp, err := l.B.QueryDigestMembership(d)
	rt.Assert(err == nil, "query-ok")
	rt.Assert(!mp.Exists, "honest-says-absent")
	snap := &balloon.Snapshot{HistoryDigest: l.Snaps[1].HistoryDigest, HyperDigest: l.Snaps[1].HyperDigest}
	ok := accept(mp, d, snap)
	rt.Cover(ok, "honest-absence-accepted")
	rt.Cover(!ok, "honest-absence-rejected")
}
