//go:build verif

package cmd

// In-package harness for C19 (auditor, monitor, publisher task bodies). Injected by overlay only.

import (
	"bytes"
	"context"
	"encoding/json"
	"errors"
	"fmt"
	"net/http"
	"net/http/httptest"
	"time"

	"github.com/bbva/qed/balloon"
	"github.com/bbva/qed/client"
	"github.com/bbva/qed/crypto/hashing"
	"github.com/bbva/qed/gossip"
	"github.com/bbva/qed/log"
	"github.com/bbva/qed/protocol"
	"github.com/bbva/qed/zzverif/models"
	"github.com/bbva/qed/zzverif/rt"
)

const zzBits = 256

// ---- the QED log the agents talk to: an honest in-process log plus an optional alteration of its answers ----

var (
	zzLog         *models.Log
	zzTamperEntry bool // replace one audit-path entry of the next answer by a different value
	zzAltered     bool // an entry was actually replaced (an empty audit path has nothing to alter)
)

func zzAlter(m map[string]hashing.Digest) {
	if !zzTamperEntry || len(m) == 0 {
		return
	}
	// deterministic choice of the entry (smallest key), symbolic replacement value
	var key string
	for k := range m {
		if key == "" || k < key {
			key = k
		}
	}
	alt := rt.Digest("altered-entry")
	rt.Assume(!bytes.Equal(alt, m[key]))
	m[key] = alt
	zzAltered = true
}

func zzServeMembership(d hashing.Digest, version *uint64) (*protocol.MembershipResult, error) {
	var mp *balloon.MembershipProof
	var err error
	if version == nil {
		mp, err = zzLog.B.QueryDigestMembership(d)
	} else {
		mp, err = zzLog.B.QueryDigestMembershipConsistency(d, *version)
	}
	if err != nil {
		return nil, err
	}
	mr := protocol.ToMembershipResult(nil, mp)
	zzAlter(mr.History)
	return mr, nil
}

func zzServeIncremental(start, end uint64) (*protocol.IncrementalResponse, error) {
	ip, err := zzLog.B.QueryConsistency(start, end)
	if err != nil {
		return nil, err
	}
	ir := protocol.ToIncrementalResponse(ip)
	zzAlter(ir.AuditPath)
	return ir, nil
}

// engine redirect targets of (*client.HTTPClient).MembershipDigest / Incremental
func zzMembershipDigest(c *client.HTTPClient, d hashing.Digest, version *uint64) (*balloon.MembershipProof, error) {
	mr, err := zzServeMembership(d, version)
	if err != nil {
		return nil, err
	}
	return protocol.ToBalloonProof(mr, rt.HasherF(zzBits)), nil
}

func zzIncremental(c *client.HTTPClient, start, end uint64) (*balloon.IncrementalProof, error) {
	ir, err := zzServeIncremental(start, end)
	if err != nil {
		return nil, err
	}
	return protocol.ToIncrementalProof(ir, rt.HasherF(zzBits)), nil
}

// native side: the same log behind a real HTTP server and a real client
func zzClient() *client.HTTPClient {
	if rt.Symbolic() {
		return &client.HTTPClient{}
	}
	mux := http.NewServeMux()
	mux.HandleFunc("/proofs/digest-membership", func(w http.ResponseWriter, r *http.Request) {
		var q protocol.MembershipDigest
		if json.NewDecoder(r.Body).Decode(&q) != nil {
			http.Error(w, "bad", 400)
			return
		}
		mr, err := zzServeMembership(q.KeyDigest, q.Version)
		if err != nil {
			http.Error(w, err.Error(), 412)
			return
		}
		out, _ := json.Marshal(mr)
		w.Write(out)
	})
	mux.HandleFunc("/proofs/incremental", func(w http.ResponseWriter, r *http.Request) {
		var q protocol.IncrementalRequest
		if json.NewDecoder(r.Body).Decode(&q) != nil {
			http.Error(w, "bad", 400)
			return
		}
		ir, err := zzServeIncremental(q.Start, q.End)
		if err != nil {
			http.Error(w, err.Error(), 412)
			return
		}
		out, _ := json.Marshal(ir)
		w.Write(out)
	})
	srv := httptest.NewServer(mux)
	c, err := client.NewHTTPClient(client.SetHttpClient(&http.Client{Timeout: 5 * time.Second}), client.SetURLs(srv.URL), client.SetTopologyDiscovery(false),
		client.SetHealthChecks(false), client.SetMaxRetries(0), client.SetHasherFunction(rt.HasherF(zzBits)), client.SetReadPreference(client.Any))
	if err != nil {
		panic(err)
	}
	return c
}

// ---- recording environment of an agent ----

type zzNotifier struct{ alerts int }

func (n *zzNotifier) Alert(msg string) error { n.alerts++; return nil }
func (n *zzNotifier) Start()                 {}
func (n *zzNotifier) Stop()                  {}

type zzStore struct {
	snaps   map[uint64]*protocol.SignedSnapshot
	batches []*protocol.BatchSnapshots
	during  func()
}

func (s *zzStore) PutBatch(b *protocol.BatchSnapshots) error {
	if s.during != nil {
		// the POST to the snapshot store is in flight: other tasks of the agent run meanwhile
		f := s.during
		s.during = nil
		f()
	}
	s.batches = append(s.batches, b)
	return nil
}
func (s *zzStore) PutSnapshot(v uint64, sn *protocol.SignedSnapshot) error {
	s.snaps[v] = sn
	return nil
}
func (s *zzStore) GetRange(a, b uint64) ([]protocol.SignedSnapshot, error) { return nil, nil }
func (s *zzStore) GetSnapshot(v uint64) (*protocol.SignedSnapshot, error) {
	if sn, ok := s.snaps[v]; ok {
		return sn, nil
	}
	return nil, errors.New("snapshot not found")
}
func (s *zzStore) DeleteRange(a, b uint64) error { return nil }
func (s *zzStore) Count() (uint64, error)        { return uint64(len(s.snaps)), nil }

type zzCache struct{ keys [][]byte }

func (c *zzCache) Get(k []byte) ([]byte, error) {
	for _, x := range c.keys {
		if bytes.Equal(x, k) {
			return []byte{0}, nil
		}
	}
	return nil, errors.New("not found")
}
func (c *zzCache) Set(k, v []byte, e int) error {
	c.keys = append(c.keys, append([]byte{}, k...))
	return nil
}

type zzCtx struct {
	context.Context
	agent *gossip.Agent
	batch *protocol.BatchSnapshots
}

func (c zzCtx) Value(key interface{}) interface{} {
	switch key {
	case "agent":
		return c.agent
	case "batch":
		return c.batch
	}
	return nil
}

func zzSetup(n int) (*gossip.Agent, *zzNotifier, *zzStore) {
	zzLog = models.NewLog(zzBits)
	for k := 0; k < n; k++ {
		zzLog.Add(models.PrefixedDigest(fmt.Sprintf("d%d", k), zzBits/8, byte(k+1), 0, 0))
	}
	zzTamperEntry, zzAltered = false, false
	not := &zzNotifier{}
	st := &zzStore{snaps: map[uint64]*protocol.SignedSnapshot{}}
	for v, s := range zzLog.Snaps {
		ps := protocol.Snapshot(*s)
		st.snaps[uint64(v)] = &protocol.SignedSnapshot{Snapshot: &ps, Signature: []byte{byte(v), 0x5}}
	}
	a := &gossip.Agent{Qed: zzClient(), Notifier: not, SnapshotStore: st, Cache: &zzCache{}}
	return a, not, st
}

func zzGossiped(v int) *protocol.SignedSnapshot {
	ps := protocol.Snapshot(*zzLog.Snaps[v])
	return &protocol.SignedSnapshot{Snapshot: &ps, Signature: []byte{byte(v), 0x5}}
}

// ZZC19Auditor: the auditor alerts exactly when the membership proof of the gossiped snapshot does not verify.
func ZZC19Auditor() {
	n := 1 + rt.Choose("events", rt.Param("N", 3))
	a, not, st := zzSetup(n)
	v := rt.Choose("snapshot", n)
	s := zzGossiped(v)
	tamper := rt.Choose("tamper", 5)
	switch tamper {
	case 1: // gossiped history digest altered
		alt := rt.Digest("alt-history")
		rt.Assume(!bytes.Equal(alt, s.Snapshot.HistoryDigest))
		s.Snapshot.HistoryDigest = alt
	case 2: // gossiped event digest altered (another digest on the same cache path)
		alt := models.PrefixedDigest("alt-event", zzBits/8, byte(v+1), 0, 0)
		rt.Assume(!bytes.Equal(alt, s.Snapshot.EventDigest))
		s.Snapshot.EventDigest = alt
	case 3: // the stored snapshot of the current version has an altered hyper digest
		cur := st.snaps[uint64(n-1)]
		alt := rt.Digest("alt-hyper")
		rt.Assume(!bytes.Equal(alt, cur.Snapshot.HyperDigest))
		cp := *cur.Snapshot
		cp.HyperDigest = alt
		st.snaps[uint64(n-1)] = &protocol.SignedSnapshot{Snapshot: &cp, Signature: cur.Signature}
	case 4: // the log's answer is altered
		zzTamperEntry = true
	}
	batch := &protocol.BatchSnapshots{Snapshots: []*protocol.SignedSnapshot{s}}
	f := membershipFactory{log: log.L()}
	var task gossip.Task
	if !rt.NoPanic(func() { task = f.New(zzCtx{agent: a, batch: batch}) }, "auditor-task-creation") {
		return
	}
	if !rt.NoPanic(func() { task() }, "auditor-task") {
		return
	}
	if tamper == 4 && !zzAltered {
		return // the answer's audit path was empty: nothing to alter
	}
	if tamper == 0 {
		rt.Assert(not.alerts == 0, "no-alert-against-an-honest-log")
	} else {
		rt.Assert(not.alerts > 0, "alert-when-verification-fails")
	}
}

// ZZC19Monitor: the monitor alerts exactly when the consistency proof between the first and last snapshot of a batch fails.
func ZZC19Monitor() {
	n := 1 + rt.Choose("events", rt.Param("N", 3))
	a, not, _ := zzSetup(n)
	last := rt.Choose("last", n)
	first := rt.Choose("first", last+1)
	var ss []*protocol.SignedSnapshot
	for v := first; v <= last; v++ {
		ss = append(ss, zzGossiped(v))
	}
	tamper := rt.Choose("tamper", 4)
	switch tamper {
	case 1:
		alt := rt.Digest("alt-first")
		rt.Assume(!bytes.Equal(alt, ss[0].Snapshot.HistoryDigest))
		ss[0].Snapshot.HistoryDigest = alt
	case 2:
		alt := rt.Digest("alt-last")
		rt.Assume(!bytes.Equal(alt, ss[len(ss)-1].Snapshot.HistoryDigest))
		ss[len(ss)-1].Snapshot.HistoryDigest = alt
	case 3:
		zzTamperEntry = true
	}
	f := incrementalFactory{log: log.L()}
	batch := &protocol.BatchSnapshots{Snapshots: ss}
	var task gossip.Task
	if !rt.NoPanic(func() { task = f.New(zzCtx{agent: a, batch: batch}) }, "monitor-task-creation") {
		return
	}
	if !rt.NoPanic(func() { task() }, "monitor-task") {
		return
	}
	if tamper == 3 && !zzAltered {
		return // empty audit path: nothing to alter
	}
	if tamper == 0 {
		rt.Assert(not.alerts == 0, "no-alert-against-an-honest-log")
	} else {
		rt.Assert(not.alerts > 0, "alert-when-verification-fails")
	}
}

// ZZC19EmptyBatch: a batch without snapshots must not crash an agent.
func ZZC19EmptyBatch() {
	a, _, _ := zzSetup(1)
	batch := &protocol.BatchSnapshots{}
	if rt.Choose("nil", 2) == 0 {
		batch.Snapshots = []*protocol.SignedSnapshot{}
	}
	switch rt.Choose("agent", 3) {
	case 0:
		f := membershipFactory{log: log.L()}
		rt.NoPanic(func() { f.New(zzCtx{agent: a, batch: batch})() }, "auditor-empty-batch")
	case 1:
		f := incrementalFactory{log: log.L()}
		rt.NoPanic(func() { f.New(zzCtx{agent: a, batch: batch})() }, "monitor-empty-batch")
	case 2:
		f := publisherFactory{log: log.L()}
		rt.NoPanic(func() { f.New(zzCtx{agent: a, batch: batch})() }, "publisher-empty-batch")
	}
}

// ZZC19Publisher: every signed snapshot not seen before is forwarded, none twice.
func ZZC19Publisher() {
	n := 3
	a, _, st := zzSetup(n)
	f := publisherFactory{log: log.L()}
	deliveries := 1 + rt.Choose("deliveries", rt.Param("DELIV", 3))
	sent := map[string]bool{}
	var batches []*protocol.BatchSnapshots
	for k := 0; k < deliveries; k++ {
		lo := rt.Choose(fmt.Sprintf("lo%d", k), n)
		hi := lo + rt.Choose(fmt.Sprintf("hi%d", k), n-lo)
		var ss []*protocol.SignedSnapshot
		for v := lo; v <= hi; v++ {
			ss = append(ss, zzGossiped(v))
			sent[string([]byte{byte(v), 0x5})] = true
		}
		if rt.Choose(fmt.Sprintf("dup%d", k), 2) == 1 {
			// a batch may carry the same signed snapshot twice (batches are assembled by other agents)
			ss = append(ss, zzGossiped(lo))
			rt.Reach("duplicate-inside-a-batch")
		}
		batches = append(batches, &protocol.BatchSnapshots{Snapshots: ss})
	}
	run := func(k int) bool {
		return rt.NoPanic(func() { f.New(zzCtx{agent: a, batch: batches[k]})() }, "publisher-task")
	}
	for k := 0; k < deliveries; k++ {
		if k+1 < deliveries && rt.Choose(fmt.Sprintf("overlap%d", k), 2) == 1 {
			// the task manager runs every task in its own goroutine: the next batch's task starts
			// while this one's POST to the snapshot store is still in flight
			next := k + 1
			st.during = func() { rt.Concurrently(func() { run(next) }) }
			if !run(k) {
				return
			}
			rt.Join()
			if st.during != nil {
				// this task had nothing to forward, so there was no POST to overlap with: the next one runs after it
				st.during = nil
				if !run(next) {
					return
				}
			} else {
				rt.Reach("overlapping-publisher-tasks")
			}
			k++
			continue
		}
		if !run(k) {
			return
		}
	}
	got := map[string]int{}
	for _, b := range st.batches {
		rt.Assert(len(b.Snapshots) > 0, "no-empty-batch-forwarded")
		for _, s := range b.Snapshots {
			got[string(s.Signature)]++
		}
	}
	for sig := range sent {
		rt.Assert(got[sig] == 1, "each-signed-snapshot-forwarded-exactly-once")
	}
	rt.Assert(len(got) == len(sent), "nothing-else-forwarded")
}

// ZZC19Twin: reachability witness.
func ZZC19Twin() {
	a, not, _ := zzSetup(2)
	s := zzGossiped(1)
	s.Snapshot.HistoryDigest = zzLog.Snaps[0].HistoryDigest
	f := membershipFactory{log: log.L()}
	f.New(zzCtx{agent: a, batch: &protocol.BatchSnapshots{Snapshots: []*protocol.SignedSnapshot{s}}})()
	rt.Assert(not.alerts == 0, "twin")
}
