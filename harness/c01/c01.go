// Package c01: every added event has a verifying membership proof at every later version.
package c01

import (
	"bytes"
	"fmt"

	"github.com/bbva/qed/balloon"
	"github.com/bbva/qed/crypto/hashing"
	"github.com/bbva/qed/protocol"
	"github.com/bbva/qed/zzverif/models"
	"github.com/bbva/qed/zzverif/rt"
)

const bits = 256

// gen builds n event digests following a pattern:
//   0 spread : distinct concrete 3-byte prefixes (no two events share a cache-level path)
//   1 cluster: all bytes concrete and equal except one symbolic byte at position POS in {3,4,17,31}
//              (shared prefix of 8*POS..8*POS+7 bits: push-down of shortcut leaves below the cache)
//   2 deep   : the symbolic byte is the last one (push-down through every stored batch)
//   3 mixed  : event k is spread or clusters with event 0 (chosen per event)
func gen(n, pattern int) []hashing.Digest {
	ds := make([]hashing.Digest, n)
	// position of the one symbolic byte of clustered digests: the shared prefix is
	// 8*symPos .. 8*symPos+7 bits long, i.e. spans two stored-batch levels.
	positions := []int{3, 4, 17, 31}
	symPos := positions[rt.Choose("sympos", rt.Param("POS", 1))]
	if pattern == 2 {
		symPos = 31
	}
	for k := 0; k < n; k++ {
		name := fmt.Sprintf("d%d", k)
		switch pattern {
		case 0:
			ds[k] = models.PrefixedDigest(name, bits/8, byte(k+1), 0, 0)
		case 1, 2:
			ds[k] = oneSymbolicByte(name, symPos)
		default:
			if rt.Choose(fmt.Sprintf("near%d", k), 2) == 1 {
				ds[k] = oneSymbolicByte(name, symPos)
			} else {
				ds[k] = models.PrefixedDigest(name, bits/8, 0x60+byte(k), 0, 0)
			}
		}
	}
	for a := 0; a < n; a++ {
		for b := a + 1; b < n; b++ {
			rt.Assume(!bytes.Equal(ds[a], ds[b]))
		}
	}
	return ds
}

var symValues = []byte{0x00, 0x80, 0x10, 0x08, 0x01, 0x40, 0x20, 0x04, 0x02, 0xff}

// oneSymbolicByte: concrete 0x5a,0,0,… except one fully symbolic byte at pos.
func oneSymbolicByte(name string, pos int) hashing.Digest {
	d := make([]byte, bits/8)
	d[0] = 0x5a
	b := rt.Byte(name)
	// the byte ranges over values whose pairwise first differing bit covers every
	// bit position of the byte (so every alignment w.r.t. the 4-level batches),
	// in both left/right orientations; the value of the shared prefix itself is
	// not enumerated (navigation is symmetric in it).
	ok := false
	for _, v := range symValues[:rt.Param("VALS", 5)] {
		ok = ok || b == v
	}
	rt.Assume(ok)
	d[pos] = b
	return d
}

// insert adds the digests with a symbolic partition into Add / AddBulk calls.
func insert(l *models.Log, ds []hashing.Digest, bulk bool) {
	i := 0
	for i < len(ds) {
		if !bulk {
			l.Add(ds[i])
			i++
			continue
		}
		// size of the next group: 1..remaining; size 1 chooses between Add and AddBulk
		m := 1 + rt.Choose(fmt.Sprintf("group@%d", i), len(ds)-i)
		if m == 1 && rt.Choose(fmt.Sprintf("single@%d", i), 2) == 0 {
			l.Add(ds[i])
		} else {
			l.AddBulk(ds[i : i+m])
		}
		i += m
	}
}

func check(l *models.Log, e, q int, viaLatest bool) {
	d := l.Digests[e]
	n := len(l.Digests)
	var mp *balloon.MembershipProof
	var err error
	if viaLatest {
		mp, err = l.B.QueryDigestMembership(d)
	} else {
		mp, err = l.B.QueryDigestMembershipConsistency(d, uint64(q))
	}
	rt.Assert(err == nil, "query-ok")
	if err != nil {
		return
	}
	rt.Assert(mp.Exists, "exists")
	rt.Assert(mp.CurrentVersion == uint64(n-1), "current-version")
	rt.Assert(mp.QueryVersion == uint64(q), "query-version")
	rt.Assert(mp.ActualVersion <= uint64(q), "actual<=query")
	if mp.ActualVersion < uint64(n) {
		rt.Assert(bytes.Equal(l.Digests[mp.ActualVersion], d), "actual-version-is-an-insertion-of-e")
	}
	// over the wire form, as the client does
	mr := protocol.ToMembershipResult(nil, mp)
	bp := protocol.ToBalloonProof(mr, rt.HasherF(bits))
	snap := &balloon.Snapshot{EventDigest: d, HistoryDigest: l.Snaps[q].HistoryDigest, HyperDigest: l.Snaps[n-1].HyperDigest, Version: uint64(q)}
	ok := bp.DigestVerify(d, snap)
	rt.Assert(ok, "proof-verifies")
	// and the in-process proof object too
	rt.Assert(mp.DigestVerify(d, snap), "proof-verifies-direct")
	rt.TraceInt("actual", mp.ActualVersion)
	rt.Trace("hyper", l.Snaps[n-1].HyperDigest)
	rt.Trace("history", l.Snaps[q].HistoryDigest)
}

func run(pattern int, bulk bool) {
	N := rt.Param("N", 3)
	n := 1 + rt.Choose("n", N)
	ds := gen(n, pattern)
	l := models.NewLog(bits)
	insert(l, ds, bulk)
	e := rt.Choose("e", n)
	q := e + rt.Choose("q", n-e)
	rt.Cover(q == e, "q==e")
	rt.Cover(q > e, "q>e")
	rt.Cover(q == n-1, "q==current")
	check(l, e, q, false)
	if q == n-1 {
		check(l, e, q, true)
	}
}

func Spread()      { run(0, false) }
func SpreadBulk()  { run(0, true) }
func Cluster()     { run(1, false) }
func ClusterBulk() { run(1, true) }
func Deep()        { run(2, false) }
func DeepBulk()    { run(2, true) }
func Mixed()       { run(3, true) }

// Held: a membership proof handed out for version q stays valid while the log goes on
// (it is serialised and verified after the query returned, while later insertions are
// applied): query, add one or two more events, then verify against the snapshots the
// proof names.
func Held() {
	N := rt.Param("N", 3)
	n := 1 + rt.Choose("n", N)
	pattern := []int{0, 1, 3}[rt.Choose("pattern", rt.Param("PATTERNS", 2))]
	ds := gen(n+2, pattern)
	l := models.NewLog(bits)
	insert(l, ds[:n], false)
	e := rt.Choose("e", n)
	d := l.Digests[e]
	mp, err := l.B.QueryDigestMembership(d)
	rt.Assert(err == nil, "query-ok")
	if err != nil {
		return
	}
	mr := protocol.ToMembershipResult(nil, mp)
	later := 1 + rt.Choose("later", rt.Param("LATER", 1))
	if later == 2 && rt.Choose("later-bulk", 2) == 1 {
		l.AddBulk(ds[n : n+2])
	} else {
		for k := 0; k < later; k++ {
			l.Add(ds[n+k])
		}
	}
	snap := &balloon.Snapshot{EventDigest: d, HistoryDigest: l.Snaps[n-1].HistoryDigest, HyperDigest: l.Snaps[n-1].HyperDigest, Version: uint64(n - 1)}
	rt.Assert(mp.DigestVerify(d, snap), "held-proof-verifies-after-later-insertions")
	// the wire form taken when the query returned
	rt.Assert(protocol.ToBalloonProof(mr, rt.HasherF(bits)).DigestVerify(d, snap), "held-answer-verifies-after-later-insertions")
	// and the wire form taken only now (a handler that serialises late)
	rt.Assert(protocol.ToBalloonProof(protocol.ToMembershipResult(nil, mp), rt.HasherF(bits)).DigestVerify(d, snap), "late-serialised-answer-verifies")
}

// Dups: an event inserted twice is provable at every version from its latest insertion on.
func Dups() {
	N := rt.Param("N", 3)
	n := 2 + rt.Choose("n", N-1)
	ds := gen(n, 0)
	a := rt.Choose("a", n-1)
	b := a + 1 + rt.Choose("b", n-1-a)
	ds[b] = ds[a]
	l := models.NewLog(bits)
	insert(l, ds, false)
	q := b + rt.Choose("q", n-b)
	check(l, a, q, false)
}

// Twin must reach its assert(false).
func Twin() {
	ds := gen(2, 1)
	l := models.NewLog(bits)
	insert(l, ds, false)
	mp, _ := l.B.QueryDigestMembership(ds[0])
	snap := &balloon.Snapshot{HistoryDigest: l.Snaps[1].HistoryDigest, HyperDigest: l.Snaps[1].HyperDigest}
	rt.Assert(!mp.DigestVerify(ds[0], snap), "twin")
}
