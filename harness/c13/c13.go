// Package c13: proofs and snapshots survive the wire format unchanged.
package c13

import (
	"bytes"
	"encoding/json"
	"errors"
	"fmt"
	"io"

	"github.com/bbva/qed/balloon"
	"github.com/bbva/qed/balloon/history"
	"github.com/bbva/qed/crypto/hashing"
	"github.com/bbva/qed/protocol"
	"github.com/bbva/qed/util"
	"github.com/bbva/qed/zzverif/models"
	"github.com/bbva/qed/zzverif/rt"
)

const bits = 256

// boundary values of position indexes (versions up to 2^63-1 are inside the claim)
var indexes = []uint64{0, 1, 9, 10, 99, 1<<31 - 1, 1 << 31, 1<<32 - 1, 1 << 32, 999999999999, 1<<62 + 12345, 1<<63 - 1}
var heights = []uint16{0, 1, 9, 10, 63, 64, 255, 256, 65535}

// copyDigestMap is the JSON contract for map[string]hashing.Digest: a deep copy preserving nil-ness.
func copyDigestMap(m map[string]hashing.Digest) map[string]hashing.Digest {
	if m == nil {
		return nil
	}
	c := make(map[string]hashing.Digest, len(m))
	for k, v := range m {
		c[k] = copyBytes(v)
	}
	return c
}

func copyBytes(b []byte) []byte {
	if b == nil {
		return nil
	}
	return append([]byte{}, b...)
}

// AuditPathKeys: ParseAuditPath(Serialize(p)) == p for position keys at decimal/width boundaries.
func AuditPathKeys() {
	rt.SetDigestLen(bits / 8)
	m := 1 + rt.Choose("entries", 2)
	p := history.AuditPath{}
	for i := 0; i < m; i++ {
		idx := indexes[rt.Choose(fmt.Sprintf("index%d", i), rt.Param("IDX", len(indexes)))]
		h := heights[rt.Choose(fmt.Sprintf("height%d", i), rt.Param("HGT", len(heights)))]
		var k [10]byte
		copy(k[:8], util.Uint64AsBytes(idx))
		copy(k[8:], util.Uint16AsBytes(h))
		p[k] = rt.Digest(fmt.Sprintf("v%d", i))
	}
	ser := p.Serialize()
	rt.Assert(len(ser) == len(p), "serialize-keeps-every-entry")
	back := history.ParseAuditPath(copyDigestMap(ser))
	rt.Assert(len(back) == len(p), "roundtrip-same-size")
	for k, v := range p {
		w, ok := back[k]
		rt.Assert(ok, "roundtrip-key-present")
		rt.Assert(bytes.Equal(v, w), "roundtrip-value-equal")
	}
}

func build(n int) *models.Log {
	l := models.NewLog(bits)
	for k := 0; k < n; k++ {
		l.Add(models.PrefixedDigest(fmt.Sprintf("d%d", k), bits/8, byte(k+1), 0, 0))
	}
	return l
}

// MembershipWire: To*Result -> (JSON contract) -> To*Proof preserves every field and the verdict,
// for the genuine digest/snapshots and for arbitrary ones.
func MembershipWire() {
	n := 1 + rt.Choose("n", rt.Param("N", 3))
	l := build(n)
	e := rt.Choose("e", n)
	// the queried version: any version from e on — also one beyond the current version, which
	// the server accepts and answers for its current version
	q := e + rt.Choose("q", n-e+2)
	mp, err := l.B.QueryDigestMembershipConsistency(l.Digests[e], uint64(q))
	rt.Assume(err == nil)
	if q > n-1 {
		rt.Reach("queried-version-beyond-the-log")
		q = n - 1 // the snapshot the answer can be checked against is the current one
	}
	mr := protocol.ToMembershipResult([]byte("event"), mp)
	wire := &protocol.MembershipResult{
		Exists: mr.Exists, Hyper: copyDigestMap(mr.Hyper), History: copyDigestMap(mr.History),
		CurrentVersion: mr.CurrentVersion, QueryVersion: mr.QueryVersion, ActualVersion: mr.ActualVersion,
		KeyDigest: copyBytes(mr.KeyDigest), Key: copyBytes(mr.Key),
	}
	bp := protocol.ToBalloonProof(wire, rt.HasherF(bits))
	rt.Assert(bp.Exists == mp.Exists, "exists-preserved")
	rt.Assert(bp.CurrentVersion == mp.CurrentVersion && bp.QueryVersion == mp.QueryVersion && bp.ActualVersion == mp.ActualVersion, "versions-preserved")
	rt.Assert(bytes.Equal(bp.KeyDigest, mp.KeyDigest), "keydigest-preserved")
	rt.Assert(len(bp.HyperProof.AuditPath) == len(mp.HyperProof.AuditPath), "hyper-path-size-preserved")
	rt.Assert(len(bp.HistoryProof.AuditPath) == len(mp.HistoryProof.AuditPath), "history-path-size-preserved")
	for k, v := range mp.HistoryProof.AuditPath {
		w, ok := bp.HistoryProof.AuditPath[k]
		rt.Assert(ok && bytes.Equal(v, w), "history-entry-preserved")
	}
	// verdicts
	genuine := &balloon.Snapshot{HistoryDigest: l.Snaps[q].HistoryDigest, HyperDigest: l.Snaps[n-1].HyperDigest}
	rt.Assert(bp.DigestVerify(l.Digests[e], genuine) == mp.DigestVerify(l.Digests[e], genuine), "same-verdict-genuine")
	rt.Assert(bp.DigestVerify(l.Digests[e], genuine), "genuine-accepted-after-wire")
	other := models.PrefixedDigest("other", bits/8, byte(e+1), 0, 0)
	free := &balloon.Snapshot{HistoryDigest: rt.Digest("hist"), HyperDigest: rt.Digest("hyper")}
	rt.Assert(bp.DigestVerify(other, genuine) == mp.DigestVerify(other, genuine), "same-verdict-other-digest")
	rt.Assert(bp.DigestVerify(l.Digests[e], free) == mp.DigestVerify(l.Digests[e], free), "same-verdict-free-snapshot")
	rt.Trace("kd", bp.KeyDigest)
}

// IncrementalWire: the same for incremental answers.
func IncrementalWire() {
	n := 1 + rt.Choose("n", rt.Param("N", 4))
	l := build(n)
	j := rt.Choose("j", n)
	i := rt.Choose("i", j+1)
	ip, err := l.B.QueryConsistency(uint64(i), uint64(j))
	rt.Assume(err == nil)
	ir := protocol.ToIncrementalResponse(ip)
	wire := &protocol.IncrementalResponse{Start: ir.Start, End: ir.End, AuditPath: copyDigestMap(ir.AuditPath)}
	bp := protocol.ToIncrementalProof(wire, rt.HasherF(bits))
	rt.Assert(bp.Start == ip.Start && bp.End == ip.End, "versions-preserved")
	rt.Assert(len(bp.AuditPath) == len(ip.AuditPath), "path-size-preserved")
	for k, v := range ip.AuditPath {
		w, ok := bp.AuditPath[k]
		rt.Assert(ok && bytes.Equal(v, w), "entry-preserved")
	}
	rt.Assert(bp.Verify(l.Snaps[i], l.Snaps[j]), "genuine-accepted-after-wire")
	fs := &balloon.Snapshot{HistoryDigest: rt.Digest("s")}
	fe := &balloon.Snapshot{HistoryDigest: rt.Digest("e")}
	rt.Assert(bp.Verify(fs, fe) == ip.Verify(fs, fe), "same-verdict-free-snapshots")
	rt.Assert(bp.Verify(l.Snaps[i], fe) == ip.Verify(l.Snaps[i], fe), "same-verdict-free-end")
}

// Twin: reachability witness.
func Twin() {
	l := build(2)
	ip, _ := l.B.QueryConsistency(0, 1)
	ir := protocol.ToIncrementalResponse(ip)
	bp := protocol.ToIncrementalProof(ir, rt.HasherF(bits))
	rt.Assert(!bp.Verify(l.Snaps[0], l.Snaps[1]), "twin")
}

// ---- snapshots, signed snapshots and snapshot batches in their public JSON form ----

// JSON contract (engine redirect targets of json.Marshal / json.Unmarshal /
// json.NewEncoder / (*json.Encoder).Encode; natively the real encoding/json runs):
// encoding yields an opaque token, decoding a token yields a deep copy of the exported
// fields of what was encoded. Whatever QED adds around the library (buffers, trimming,
// copies) is executed as written.
var zzJSON []interface{}
var zzEncWriter = map[*json.Encoder]io.Writer{}

func cpSnap(s *protocol.Snapshot) *protocol.Snapshot {
	if s == nil {
		return nil
	}
	return &protocol.Snapshot{EventDigest: copyBytes(s.EventDigest), HistoryDigest: copyBytes(s.HistoryDigest), HyperDigest: copyBytes(s.HyperDigest), Version: s.Version}
}

func cpSigned(s *protocol.SignedSnapshot) *protocol.SignedSnapshot {
	if s == nil {
		return nil
	}
	return &protocol.SignedSnapshot{Snapshot: cpSnap(s.Snapshot), Signature: copyBytes(s.Signature)}
}

func cpBatch(b *protocol.BatchSnapshots) *protocol.BatchSnapshots {
	if b == nil {
		return nil
	}
	c := &protocol.BatchSnapshots{}
	if b.Snapshots != nil {
		c.Snapshots = []*protocol.SignedSnapshot{}
	}
	for _, s := range b.Snapshots {
		c.Snapshots = append(c.Snapshots, cpSigned(s))
	}
	return c
}

func zzMarshal(v interface{}) ([]byte, error) {
	var box interface{}
	switch x := v.(type) {
	case *protocol.Snapshot:
		box = cpSnap(x)
	case *protocol.SignedSnapshot:
		box = cpSigned(x)
	case *protocol.BatchSnapshots:
		box = cpBatch(x)
	default:
		return nil, errors.New("json contract: unsupported value")
	}
	zzJSON = append(zzJSON, box)
	return []byte{0xb0, byte(len(zzJSON) - 1)}, nil
}

func zzUnmarshal(data []byte, v interface{}) error {
	if len(data) != 2 || data[0] != 0xb0 || int(data[1]) >= len(zzJSON) {
		return errors.New("json contract: undecodable")
	}
	switch out := v.(type) {
	case *protocol.Snapshot:
		x, ok := zzJSON[data[1]].(*protocol.Snapshot)
		if !ok {
			return errors.New("json contract: type mismatch")
		}
		*out = *cpSnap(x)
	case *protocol.SignedSnapshot:
		x, ok := zzJSON[data[1]].(*protocol.SignedSnapshot)
		if !ok {
			return errors.New("json contract: type mismatch")
		}
		*out = *cpSigned(x)
	case *protocol.BatchSnapshots:
		x, ok := zzJSON[data[1]].(*protocol.BatchSnapshots)
		if !ok {
			return errors.New("json contract: type mismatch")
		}
		*out = *cpBatch(x)
	default:
		return errors.New("json contract: unsupported target")
	}
	return nil
}

func zzNewEncoder(w io.Writer) *json.Encoder {
	e := &json.Encoder{}
	zzEncWriter[e] = w
	return e
}

func zzEncoderEncode(e *json.Encoder, v interface{}) error {
	b, err := zzMarshal(v)
	if err != nil {
		return err
	}
	_, err = zzEncWriter[e].Write(append(b, '\n'))
	return err
}

func symSnap(name string) *protocol.Snapshot {
	return &protocol.Snapshot{EventDigest: rt.Bytes(name+"-event", 32), HistoryDigest: rt.Bytes(name+"-history", 32), HyperDigest: rt.Bytes(name+"-hyper", 32), Version: rt.U64(name + "-version")}
}

func sameSnap(a, b *protocol.Snapshot, label string) {
	rt.Assert(a != nil && b != nil, label+":snapshot-present")
	if a == nil || b == nil {
		return
	}
	rt.Assert(a.Version == b.Version, label+":version")
	rt.Assert(bytes.Equal(a.EventDigest, b.EventDigest), label+":event-digest")
	rt.Assert(bytes.Equal(a.HistoryDigest, b.HistoryDigest), label+":history-digest")
	rt.Assert(bytes.Equal(a.HyperDigest, b.HyperDigest), label+":hyper-digest")
}

func sameBatch(a, b *protocol.BatchSnapshots, label string) {
	rt.Assert(len(a.Snapshots) == len(b.Snapshots), label+":same-number-of-snapshots")
	if len(a.Snapshots) != len(b.Snapshots) {
		return
	}
	for i := range a.Snapshots {
		sameSnap(a.Snapshots[i].Snapshot, b.Snapshots[i].Snapshot, label)
		rt.Assert(bytes.Equal(a.Snapshots[i].Signature, b.Snapshots[i].Signature), label+":signature")
	}
}

// SnapshotForms: Encode then Decode of a snapshot, a signed snapshot and a batch (fields
// symbolic) gives the value back — also when the encoded bytes are used only after other
// values have been encoded (the sender queues an encoded batch and goes on encoding).
func SnapshotForms() {
	zzJSON = nil
	m := 1 + rt.Choose("batch-size", rt.Param("BATCH", 2))
	mk := func(tag string) *protocol.BatchSnapshots {
		b := &protocol.BatchSnapshots{}
		for i := 0; i < m; i++ {
			b.Snapshots = append(b.Snapshots, &protocol.SignedSnapshot{Snapshot: symSnap(fmt.Sprintf("%s%d", tag, i)), Signature: rt.Bytes(fmt.Sprintf("%s%d-sig", tag, i), 4)})
		}
		return b
	}
	a, b := mk("a"), mk("b")
	rt.Assume(a.Snapshots[0].Snapshot.Version != b.Snapshots[0].Snapshot.Version)
	encA, err := a.Encode()
	rt.Assert(err == nil, "batch-encodes")
	s1 := a.Snapshots[0]
	encS, err := s1.Encode()
	rt.Assert(err == nil, "signed-snapshot-encodes")
	encP, err := s1.Snapshot.Encode()
	rt.Assert(err == nil, "snapshot-encodes")
	later := rt.Choose("other-values-encoded-meanwhile", 2) == 1
	if later {
		b.Encode()
		b.Snapshots[0].Encode()
		b.Snapshots[0].Snapshot.Encode()
	}
	var gotA protocol.BatchSnapshots
	rt.Assert(gotA.Decode(encA) == nil, "batch-decodes")
	sameBatch(a, &gotA, "batch")
	var gotS protocol.SignedSnapshot
	rt.Assert(gotS.Decode(encS) == nil, "signed-snapshot-decodes")
	sameSnap(s1.Snapshot, gotS.Snapshot, "signed-snapshot")
	rt.Assert(bytes.Equal(s1.Signature, gotS.Signature), "signed-snapshot:signature")
	var gotP protocol.Snapshot
	rt.Assert(gotP.Decode(encP) == nil, "snapshot-decodes")
	sameSnap(s1.Snapshot, &gotP, "snapshot")
	rt.Cover(later, "encoded-bytes-used-after-later-encodes")
}
