#!/bin/bash
# runs every claimed check's thorough command sequentially (validation of the thorough bounds); summary on stdout
W=${1:-8}
cd "$(dirname "$0")/.."
for p in $(python3 -c "import json; print(' '.join(c['property_id'] for c in json.load(open('MANIFEST.json'))['checks']))"); do
  s=$(date +%s)
  timeout 14000 /verif/bin/qv check $p --tier thorough --workers $W > /tmp/allthorough-$p.log 2>&1; rc=$?
  e=$(date +%s)
  echo "$p exit=$rc secs=$((e-s)) viol=$(grep -c '^VIOLATION' /tmp/allthorough-$p.log) inconcl=$(grep -c '^INCONCLUSIVE' /tmp/allthorough-$p.log)"
  grep '^INCONCLUSIVE\|^VIOLATION' /tmp/allthorough-$p.log | cut -c1-240 | head -5
done
echo DONE
