#!/bin/bash
# usage: try_seeded.sh <seed-id> <property> [check args...]
# Applies /verif/seeded/<seed-id>/patch.diff to /repo, runs the property's quick check, undoes the patch.
set -u
sid=$1; prop=$2; shift 2
cd /repo && git status --short | grep -q . && { echo "/repo not clean"; exit 2; }
git -C /repo apply /verif/seeded/$sid/patch.diff || { echo "patch does not apply to /repo"; exit 2; }
( cd /verif && timeout 1500 /verif/bin/qv check $prop --tier quick "$@" > /tmp/seed-$sid-$prop.log 2>&1; echo "exit=$?" >> /tmp/seed-$sid-$prop.log )
git -C /repo checkout -- .
grep -E "^VIOLATION|^KNOWN|^INCONCLUSIVE|^exit|^  entry" /tmp/seed-$sid-$prop.log | cut -c1-260
