#!/usr/bin/env python3
"""Regenerates /verif/MANIFEST.json from tools/manifest_meta.json and checks.json."""
import json, os
V = '/verif'
meta = json.load(open(f'{V}/tools/manifest_meta.json'))
checks = json.load(open(f'{V}/checks.json'))
props = [json.loads(l)['id'] for l in open(f'{V}/properties.jsonl')]
man = {
    "version": 1,
    "setup_cmd": "cd /verif && ./setup.sh",
    "hooks": {
        "guard": "verif",
        "enable": "go build -tags verif (no hook commits exist: all harnesses and models are injected by go/packages overlays and go build -overlay; nothing under /repo is written)",
        "baseline_off_cmd": "cd /repo && go test -mod=mod -json -vet=off -count=1 -timeout 25m ./...",
        "source_commits": [],
        "add_only": True,
    },
    "engines": [{
        "name": "qv",
        "path": "/verif/engine",
        "serves_properties": [p for p in props if p in checks and p in meta["claimed"]],
        "kind_free_text": "symbolic interpreter for go/ssa of /repo's working tree emitting SMT-LIB2 to z3 (bit-vectors + UF hash model); forks by re-execution; counterexamples replayed natively before reporting",
    }],
    "checks": [],
    "not_applicable": [],
    "notes": meta.get("notes", ""),
}
for p in props:
    if p in meta["claimed"] and p in checks:
        m = meta["claimed"][p]
        man["checks"].append({
            "property_id": p,
            "quick_cmd": f"/verif/bin/qv check {p} --tier quick",
            "thorough_cmd": f"/verif/bin/qv check {p} --tier thorough",
            "evidence_file": f"/verif/evidence/{p}.json",
            "replay_cmd_template": "/verif/bin/qv replay {path}",
            "engine": "qv",
            "level_claimed": {"category": "model_checking", "text": m["text"], "design_ref": m.get("design_ref", "DESIGN.md §6 " + p)},
            "level_note": m["note"],
            "technique": m.get("technique", "bounded symbolic execution of go/ssa with SMT (z3) deciding every assertion; native replay of counterexamples"),
        })
    else:
        reason = meta["not_applicable"].get(p, "no solver-based check built yet for this property in this tree state (work in progress); not claimed")
        man["not_applicable"].append({"property_id": p, "reason": reason})
json.dump(man, open(f'{V}/MANIFEST.json', 'w'), indent=1)
print("claimed:", [c["property_id"] for c in man["checks"]])
