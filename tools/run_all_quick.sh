#!/bin/bash
# runs every claimed check's quick command sequentially; summary in /tmp/allquick.txt
cd /verif
: > /tmp/allquick.txt
for p in $(python3 -c "import json; print(' '.join(c['property_id'] for c in json.load(open('/verif/MANIFEST.json'))['checks']))"); do
  s=$(date +%s)
  timeout 3000 /verif/bin/qv check $p --tier quick > /tmp/allquick-$p.log 2>&1; rc=$?
  e=$(date +%s)
  echo "$p exit=$rc secs=$((e-s)) viol=$(grep -c '^VIOLATION' /tmp/allquick-$p.log) inconcl=$(grep -c '^INCONCLUSIVE' /tmp/allquick-$p.log)" >> /tmp/allquick.txt
done
echo DONE >> /tmp/allquick.txt
