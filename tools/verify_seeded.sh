#!/bin/bash
# usage: verify_seeded.sh <worktree> <demo-file> <dest-path-in-tree> <go test pkg> [-run regex]
# Confirms in the scratch worktree that the demonstration fails with the patch and passes without it,
# and that the runnable part of the pinned suite still passes with the patch.
set -u
export GOFLAGS=-mod=mod GOPROXY=off GOSUMDB=off GOTOOLCHAIN=local
wt=$1; demo=$2; dest=$3; pkg=$4; shift 4
cd $wt || exit 2
git checkout -q -- . 2>/dev/null; git clean -fdq -e _seeded 2>/dev/null
mkdir -p $(dirname $dest); cp _seeded/$demo $dest
echo "== demo WITHOUT patch"; go test -vet=off -count=1 "$@" $pkg 2>&1 | tail -3
git apply _seeded/patch.diff || { echo "patch does not apply"; exit 2; }
echo "== demo WITH patch"; go test -vet=off -count=1 "$@" $pkg 2>&1 | grep -E "^(--- FAIL|FAIL|ok|panic)" | head -8
rm -f $dest
echo "== suite WITH patch"; go test -vet=off -count=1 ./client/ ./gossip/ ./log/ ./testutils/spec/ ./crypto/... ./storage/bplus/ 2>&1 | awk '{print $1,$2}' | tr '\n' ';'; echo
git checkout -q -- .
