#!/bin/bash
# like verify_seeded.sh, but the demonstration is built with the cgo shim (packages importing rocksdb)
set -u
export GOFLAGS=-mod=mod GOPROXY=off GOSUMDB=off GOTOOLCHAIN=local
wt=$1; demo=$2; dest=$3; pkg=$4; shift 4
cd $wt || exit 2
git checkout -q -- . 2>/dev/null; git clean -fdq -e _seeded 2>/dev/null
mkdir -p $(dirname $dest); cp _seeded/$demo $dest
shim() { CXX=/verif/cshim/cxxwrap CGO_LDFLAGS_ALLOW='.*' CGO_CFLAGS=-I/verif/cshim CGO_CXXFLAGS=-I/verif/cshim CGO_LDFLAGS='-L/verif/cshim -lverifshim' "$@"; }
echo "== demo WITHOUT patch"; shim go test -vet=off -count=1 "$@" $pkg 2>&1 | tail -3
git apply _seeded/patch.diff || { echo "patch does not apply"; exit 2; }
echo "== demo WITH patch"; shim go test -vet=off -count=1 "$@" $pkg 2>&1 | grep -E "^(--- FAIL|FAIL|ok|panic)" | head -8
rm -f $dest
echo "== suite WITH patch"; go test -vet=off -count=1 ./client/ ./gossip/ ./log/ ./testutils/spec/ ./crypto/... ./storage/bplus/ 2>&1 | awk '{print $1,$2}' | tr '\n' ';'; echo
git checkout -q -- .
