#!/bin/sh
# Builds the checker offline from files on disk only.
set -e
export GOFLAGS=-mod=mod GOPROXY=off GOSUMDB=off GOTOOLCHAIN=local
cd /verif/engine
mkdir -p /verif/bin /verif/evidence /verif/replays
go build -o /verif/bin/qv .
if [ -f /verif/cshim/build.sh ]; then sh /verif/cshim/build.sh; fi
/verif/bin/qv selftest
echo "setup ok"
