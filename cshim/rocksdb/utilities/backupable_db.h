#include "rocksdb/utilities/backup_engine.h"
