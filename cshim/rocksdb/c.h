#ifndef VERIF_ROCKSDB_C_SHIM
#define VERIF_ROCKSDB_C_SHIM
#define rocksdb_backup_engine_restore_db_from_backup rocksdb_backup_engine_restore_db_from_backup__sys
#include_next <rocksdb/c.h>
#undef rocksdb_backup_engine_restore_db_from_backup
#ifdef __cplusplus
extern "C" {
#endif
extern rocksdb_filterpolicy_t* verif_bloom(int bits_per_key);
extern rocksdb_filterpolicy_t* verif_bloom_full(int bits_per_key);
#ifdef __cplusplus
}
#endif
#define rocksdb_filterpolicy_create_bloom verif_bloom
#define rocksdb_filterpolicy_create_bloom_full verif_bloom_full
static inline void rocksdb_block_based_options_set_hash_index_allow_collision(rocksdb_block_based_table_options_t* o, unsigned char v) { (void)o; (void)v; }
#endif
