#!/bin/sh
# Builds the tiny static library that lets the repository's cgo RocksDB wrapper
# compile and link against the system librocksdb (7.8) without touching /repo.
set -e
cd /verif/cshim
chmod +x cxxwrap
gcc -c -O1 -o shimdef.o shimdef.c
ar rcs libverifshim.a shimdef.o
rm -f shimdef.o
