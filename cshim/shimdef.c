#include "/usr/include/rocksdb/c.h"
rocksdb_filterpolicy_t* verif_bloom(int b) { return rocksdb_filterpolicy_create_bloom((double)b); }
rocksdb_filterpolicy_t* verif_bloom_full(int b) { return rocksdb_filterpolicy_create_bloom_full((double)b); }
